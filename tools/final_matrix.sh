#!/bin/sh
# tools/final_matrix.sh <out.json> [K N]: every seeded change against the check of its property, every revert-of-fix
# against the checks that reported the defect (scratch copies of /repo; evidence/replays kept out of /verif).
# With K N only the entries i with i % N == K are run (several shards can run side by side).
OUT="${1:-/verif/scratch_matrix_final.json}"; K="${2:-0}"; N="${3:-1}"
ALL=""
for d in /verif/seeded/*/; do
  n=$(basename "$d"); p=$(echo "$n" | cut -c1-3)
  ALL="$ALL ${d}patch.diff:$p"
done
ALL="$ALL /verif/mutants/revert-e6b20d9.diff:C06,C07,C18 /verif/mutants/revert-3fc795c.diff:C03,C11 /verif/mutants/revert-bbd90cc.diff:C04 /verif/mutants/revert-e133290.diff:C04 /verif/mutants/revert-84d5135.diff:C02,C11,C16 /verif/mutants/revert-cab2413.diff:C08,C01 /verif/mutants/revert-630a8f5.diff:C08 /verif/mutants/revert-c62f2b5.diff:C20 /verif/mutants/revert-75606fc.diff:C07 /verif/mutants/revert-e3dd9f6.diff:C14 /verif/mutants/revert-0abfc06.diff:C19 /verif/mutants/revert-f7cfb70.diff:C08 /verif/mutants/revert-c43b0f5.diff:C06 /verif/mutants/revert-ad0fb3f.diff:C13,C18 /verif/mutants/revert-645f7b7.diff:C13,C18 /verif/mutants/revert-845aa87.diff:C04,C16 /verif/mutants/revert-32361ca.diff:C13 /verif/mutants/revert-5a63456.diff:C18 /verif/mutants/revert-53e4fa7.diff:C06"
ARGS=""; i=0
for a in $ALL; do
  if [ $((i % N)) -eq "$K" ]; then ARGS="$ARGS $a"; fi
  i=$((i + 1))
done
exec /verif/tools/mutant_matrix.py "$OUT" $ARGS
