#!/venv/bin/python
"""tools/mutant_matrix.py <out.json> <patch>:<C01,C02,...> ...
Applies each patch to a scratch copy of /repo (never to /repo itself), runs the listed checks
with VERIF_REPO pointing at the copy, records exit code and clauses, removes the copy."""
import json
import os
import re
import shutil
import subprocess
import sys
import tempfile

out_path = sys.argv[1]
rows = []
for arg in sys.argv[2:]:
    patch, checks = arg.rsplit(":", 1)
    patch = os.path.abspath(patch)
    scratch = tempfile.mkdtemp(prefix="mutant-")
    try:
        subprocess.run(["rsync", "-a", "--exclude", ".git", "/repo/", scratch + "/"], check=True)
        p = subprocess.run(["patch", "-p1", "-s", "-d", scratch, "-i", patch], capture_output=True, text=True)
        if p.returncode != 0:
            rows.append({"patch": patch, "error": "does not apply: " + p.stdout + p.stderr})
            continue
        t = subprocess.run(["/venv/bin/python", "-m", "pytest", "-q", "-p", "no:cacheprovider", "-x"], cwd=scratch,
                           capture_output=True, text=True)
        tests = t.stdout.strip().splitlines()[-1] if t.stdout.strip() else "?"
        for c in checks.split(","):
            env = dict(os.environ, VERIF_REPO=scratch, VERIF_EVIDENCE_DIR=scratch + "/.evidence", VERIF_REPLAY_DIR=scratch + "/.replays")
            r = subprocess.run(["/verif/check", c, "--tier", os.environ.get("TIER", "quick")], cwd="/verif", env=env,
                               capture_output=True, text=True)
            clauses = sorted(set(re.findall(r"clause: (\S+)", r.stdout)))
            rows.append({"patch": os.path.basename(os.path.dirname(patch)) + "/" + os.path.basename(patch), "check": c,
                         "rc": r.returncode, "violations": r.stdout.count("\nVIOLATION") + r.stdout.startswith("VIOLATION"),
                         "clauses": clauses[:6], "repo_tests": tests,
                         "tail": (r.stderr.strip().splitlines() or [""])[-1][:300] if r.returncode == 2 else ""})
            print(json.dumps(rows[-1]), flush=True)
    finally:
        shutil.rmtree(scratch, ignore_errors=True)
    with open(out_path, "w") as fh:
        json.dump(rows, fh, indent=1)
