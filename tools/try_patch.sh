#!/bin/sh
# tools/try_patch.sh [-R] <patch> <check ids...>: apply a patch to /repo, run checks, undo.
REV=""
if [ "$1" = "-R" ]; then REV="-R"; shift; fi
P="$(realpath "$1")"; shift
cd /repo || exit 2
if [ -n "$(git status --porcelain --untracked-files=no)" ]; then echo "/repo not clean"; exit 2; fi
git apply $REV "$P" || { echo "patch does not apply"; exit 2; }
trap 'git -C /repo checkout -- . ' EXIT
cd /verif
for c in "$@"; do
  out=$(./check "$c" --tier "${TIER:-quick}" 2>&1); rc=$?
  nv=$(printf '%s\n' "$out" | grep -c '^VIOLATION')
  echo "== $c rc=$rc violations=$nv $(printf '%s\n' "$out" | grep -m1 'clause:' )"
  [ $rc -eq 2 ] && printf '%s\n' "$out" | tail -5
done
