#!/venv/bin/python
"""tools/accept_seed.py <Cxx> <name> <checks,comma> : confirm a sub-agent's seeded change (patch applies to a scratch
copy of /repo, repo tests pass, demo fails with and passes without), run the named checks against it, store it under
/verif/seeded/<name>/ and remove the sub-agent's worktree."""
import json
import os
import re
import shutil
import subprocess
import sys
import tempfile

wt, name, checks = sys.argv[1], sys.argv[2], sys.argv[3].split(",")
pid = wt[-3:]
src = f"/tmp/wt/{wt}.out"
patch = os.path.join(src, "patch.diff")
demo = os.path.join(src, "demo.py")
meta = {"property": pid, "name": name, "ran": []}


def run(cmd, cwd, env=None):
    r = subprocess.run(cmd, cwd=cwd, capture_output=True, text=True, env=env)
    return r.returncode, (r.stdout + r.stderr)


clean = tempfile.mkdtemp(prefix="seed-clean-")
mut = tempfile.mkdtemp(prefix="seed-mut-")
try:
    for d in (clean, mut):
        subprocess.run(["rsync", "-a", "--exclude", ".git", "/repo/", d + "/"], check=True)
    rc, out = run(["patch", "-p1", "-s", "-i", patch], mut)
    if rc != 0:
        print("PATCH DOES NOT APPLY", out)
        sys.exit(1)
    rc, out = run(["/venv/bin/python", "-m", "pytest", "-q", "-p", "no:cacheprovider"], mut)
    meta["repo_tests_with_change"] = out.strip().splitlines()[-1]
    rc_m, out_m = run(["/venv/bin/python", demo], mut)
    rc_c, out_c = run(["/venv/bin/python", demo], clean)
    meta["demo_with_change_rc"], meta["demo_without_change_rc"] = rc_m, rc_c
    meta["demo_with_change_tail"] = out_m.strip().splitlines()[-3:]
    print("tests:", meta["repo_tests_with_change"], "| demo with change rc", rc_m, "| without rc", rc_c)
    confirmed = ("passed" in meta["repo_tests_with_change"] and "failed" not in meta["repo_tests_with_change"]
                 and rc_m != 0 and rc_c == 0)
    meta["confirmed"] = confirmed
    for c in checks:
        env = dict(os.environ, VERIF_REPO=mut, VERIF_EVIDENCE_DIR=mut + "/.evidence", VERIF_REPLAY_DIR=mut + "/.replays")
        rc, out = run(["/verif/check", c, "--tier", "quick"], "/verif", env)
        cl = sorted(set(re.findall(r"clause: (\S+)", out)))
        meta["ran"].append({"check": c, "rc": rc, "clauses": cl[:8], "tail": out.strip().splitlines()[-1][:200]})
        print(f"  {c}: rc={rc} clauses={cl[:6]}")
    dst = f"/verif/seeded/{name}"
    os.makedirs(dst, exist_ok=True)
    shutil.copy(patch, dst + "/patch.diff")
    shutil.copy(demo, dst + "/demo.py")
    if os.path.exists(src + "/notes.md"):
        meta["needs_to_manifest"] = open(src + "/notes.md").read()
    meta["detected_by"] = [r["check"] for r in meta["ran"] if r["rc"] == 1]
    json.dump(meta, open(dst + "/meta.json", "w"), indent=1)
finally:
    shutil.rmtree(clean, ignore_errors=True)
    shutil.rmtree(mut, ignore_errors=True)
subprocess.run(["git", "-C", "/repo", "worktree", "remove", "--force", f"/tmp/wt/{wt}"])
shutil.rmtree(src, ignore_errors=True)
