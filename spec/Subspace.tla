------------------------------- MODULE Subspace -------------------------------
(***************************************************************************)
(* Subspace minimisation (Byrd, Lu, Nocedal 1995, section 5.1, direct      *)
(* primal method; subspacemin.py:300-440) written from its definition with *)
(* the dense matrix: the free variables at the Cauchy point move along the *)
(* exact minimiser direction of the model restricted to them, truncated by *)
(* the largest factor <= 1 that keeps the point in the box.                *)
(***************************************************************************)
EXTENDS Cauchy

\* free variables at xc: strictly between the bounds (subspacemin.py:88)
FreeAt(P, xc) == {i \in 1..P.n : /\ ~(P.lo[i].fin /\ xc[i] = P.lo[i].v)
                                  /\ ~(P.hi[i].fin /\ xc[i] = P.hi[i].v)}
SeqOfSet(S) == LET RECURSIVE F(_, _)
                   F(T, acc) == IF T = {} THEN acc
                                ELSE LET m == CHOOSE a \in T : \A b \in T : a <= b
                                     IN F(T \ {m}, Append(acc, m))
               IN F(S, <<>>)
\* reduced gradient of the model at xc on the free variables
RedGrad(P, xc, idx) == SubV(VAdd(P.g, MVec(P.B, VSub(xc, P.x))), idx)
\* Newton direction on the free variables
DHat(P, xc, idx) == VScale(R(-1), Solve(SubM(P.B, idx), RedGrad(P, xc, idx)))
\* largest alpha in [0, 1] keeping xc + alpha * Z dhat in the box
AlphaStar(P, xc, idx, dh) ==
  LET lim(k) == LET i == idx[k] IN
                  IF RSign(dh[k]) = 1 /\ P.hi[i].fin THEN Fin(RDiv(RSub(P.hi[i].v, xc[i]), dh[k]))
                  ELSE IF RSign(dh[k]) = -1 /\ P.lo[i].fin THEN Fin(RDiv(RSub(P.lo[i].v, xc[i]), dh[k]))
                  ELSE Inf
      S == {lim(k).v : k \in {j \in 1..Len(idx) : lim(j).fin}}
      m == IF S = {} THEN One ELSE CHOOSE a \in S : \A b \in S : RLe(a, b)
  IN RMin(One, m)
XBar(P, xc) ==
  Pick({ IF idx = <<>> THEN xc
         ELSE Pick({ Pick({ [i \in 1..P.n |-> IF \E k \in 1..Len(idx) : idx[k] = i
                                               THEN RAdd(xc[i], RMul(a, dh[CHOOSE k \in 1..Len(idx) : idx[k] = i]))
                                               ELSE xc[i]]
                            : a \in {AlphaStar(P, xc, idx, dh)} })
                     : dh \in {DHat(P, xc, idx)} })
         : idx \in {SeqOfSet(FreeAt(P, xc))} })

\* ---------------- design checks ----------------
C09_ActiveFixed(P, xc) == \A i \in (1..P.n) \ FreeAt(P, xc) : XBar(P, xc)[i] = xc[i]
C09_Feasible(P, xc) == InBox(P, XBar(P, xc))
C09_ModelNonIncrease(P, xc) == RLe(Model(P, XBar(P, xc)), Model(P, xc))
C09_Descent(P, xc) == ~ProjGradZero(P) => RSign(Dot(P.g, VSub(XBar(P, xc), P.x))) = -1
C09_AlphaMaximal(P, xc, xb) ==    \* either the full Newton step, or a free variable sits on a bound
  \A idx \in {SeqOfSet(FreeAt(P, xc))} :
  idx # <<>> =>
    \A dh \in {DHat(P, xc, idx)} : \A a \in {AlphaStar(P, xc, idx, dh)} :
      /\ RLe(Zero, a) /\ RLe(a, One)
      /\ (a = One => \A k \in 1..Len(idx) : xb[idx[k]] = RAdd(xc[idx[k]], dh[k]))
      /\ (a # One => \E i \in FreeAt(P, xc) :
            \/ (P.lo[i].fin /\ xb[i] = P.lo[i].v)
            \/ (P.hi[i].fin /\ xb[i] = P.hi[i].v))
      \* dhat solves the reduced Newton system  (Z'BZ) dhat = -Z'(g + B(xc - x))
      /\ MVec(SubM(P.B, idx), dh) = VScale(R(-1), RedGrad(P, xc, idx))
=============================================================================
