SPECIFICATION Spec
CONSTANTS
  Pts = {1, 2, 3}
  Scales = {1, 2}
  MaxSteps = 6
  ModeFD = TRUE
  K = 2
INVARIANT C15_AnswerFresh
INVARIANT C15_NoReeval
INVARIANT C15_CellCoherent
