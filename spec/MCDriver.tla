------------------------------ MODULE MCDriver ------------------------------
(***************************************************************************)
(* Design run of Driver: the mechanisms the code is supposed to implement  *)
(* drive the actions, an adversarial environment chooses objective ranks,  *)
(* curvature outcomes, projected-gradient facts, callback answers and      *)
(* faults.  TLC explores every configuration of the lattice below and      *)
(* every environment choice, and checks every invariant of Driver in every *)
(* reachable state.                                                        *)
(***************************************************************************)
EXTENDS Driver

CONSTANTS MaxIters, MaxFuns, MaxLss, MaxCors,   \* sets of values
          TargetKinds, GtolKinds, CbStops, Upds, Scalers, Envs, Faults

Ranks == 0..MaxRank

Configs ==
  UNION { { [maxiter |-> mi, maxfun |-> mf, maxls |-> ml, maxcor |-> mc, tk |-> tk, gk |-> gk,
     T |-> t, ftol0 |-> f0, cb |-> (cbs >= 1), cbStop |-> cbs, upd |-> u, scaler |-> sc,
     fd |-> FALSE, env |-> e, ck |-> FALSE, ckNit |-> 0, ckNfev |-> 0, ckNjev |-> 0,
     ckF |-> -1, ckMem |-> <<>>, ckPg |-> FALSE] :
    mi \in MaxIters, mf \in MaxFuns, ml \in MaxLss, mc \in MaxCors,
    gk \in GtolKinds, t \in (IF tk = "none" THEN {0} ELSE Ranks), f0 \in BOOLEAN,
    cbs \in CbStops, u \in Upds, sc \in Scalers, e \in Envs } : tk \in TargetKinds }

(* Restart configurations: the same call with other budgets, from `out`.   *)
RestartConfigs ==
  { [cfg EXCEPT !.maxiter = mi, !.maxfun = mf, !.maxcor = mc, !.ck = TRUE,
                !.ckNit = out.nit, !.ckNfev = out.nfev, !.ckNjev = out.njev, !.ckF = out.fr,
                !.ckMem = LastN(AllButLast(out.mmem), mc + 1), !.ckPg = out.pg] :
    mi \in MaxIters, mf \in MaxFuns, mc \in MaxCors }

Convex == cfg.env = "convex"

\* what the design promises to report
Obs(snapshot) ==
  LET cl == Classified IN
  [x |-> x,
   msg |-> IF snapshot THEN task ELSE IF pc = "Classified" THEN task ELSE cl.task,
   success |-> IF snapshot THEN success ELSE IF pc = "Classified" THEN success ELSE cl.success,
   nit |-> IF snapshot /\ Variant # "SnapNitOff" THEN nit + 1 ELSE nit, nfev |-> nfev, njev |-> njev,
   funOk |-> fAt = x, jacOk |-> gAt = x, pg |-> pg, leT |-> LeT(fx), fr |-> fx,
   prov |-> Pairs(mem), yOk |-> [i \in 1..(Len(mem) - 1) |-> TRUE],
   exact |-> [i \in 1..(Len(mem) - 1) |-> TRUE], yAp |-> [i \in 1..(Len(mem) - 1) |-> TRUE], syPos |-> TRUE,
   frozen |-> TRUE]

LowerTrials == {i \in DOMAIN ls.trials : Variant = "LSAnyTrial" \/ ls.trials[i].fr < fx}

DStart == /\ pc = "Idle"
          /\ IF chain = 0 THEN \E c \in Configs : Start(c, 1)
                          ELSE \E c \in RestartConfigs : Start(c, out.x)
DRestart == chain < MaxChain /\ Restart
DEvalF0 == \E fr \in Ranks : EvalF0(x, fr)
DStops == \/ cfg.tk = "call" /\ CallStop("ftarget")
          \/ cfg.gk = "call" /\ CallStop("gtol")
          \/ (IF pc = "StopT" THEN cfg.tk # "call" ELSE cfg.gk # "call") /\ SkipStop
DEarly == IF LeT(fx) THEN EarlyTarget ELSE NoEarlyTarget
\* convex contract: the projected gradient vanishes exactly at the minimum rank
PgFacts(fr) == IF Convex THEN {fr = 0} ELSE BOOLEAN
DEvalG0 == \E b \in PgFacts(fx) : EvalG0(x, b)
DScale == IF cfg.scaler THEN CallScaler ELSE SkipScaler
DUpd0 == IF cfg.upd # "none" THEN CallUpd0 ELSE SkipUpd0
DMem0 == \/ Mem0First
         \/ \E acc \in (IF Convex THEN {TRUE} ELSE BOOLEAN) :
               Mem0Restart(acc, Updated(mem, x, acc, cfg.maxcor))
DGuard == IF pg \/ nit >= cfg.maxiter \/ nfev >= cfg.maxfun \/ success
          THEN GuardExit ELSE GuardEnter
DLSBegin == LSBegin(x, Min(cfg.maxls, cfg.maxfun - nfev))
DTrialF == /\ pc = "LSF" /\ ls.n < ls.budget
           /\ \E fr \in Ranks :
                /\ Convex /\ ls.n = ls.budget - 1 /\ LowerTrials = {} => fr < fx
                /\ TrialF(npts + 1, fr)
DTrialG == pc = "LSG" /\ \E b \in PgFacts(ls.trials[Len(ls.trials)].fr) : TrialG(ls.pend, b)
DLSEnd == /\ pc = "LSF"
          /\ \/ /\ ~Convex \/ (ls.n = ls.budget /\ LowerTrials = {})
                /\ (LSFailAbort \/ LSFailReset)
             \/ \E i \in LowerTrials : LSStep(ls.trials[i].pt, ls.trials[i].fr)
DAccF == IF memo.pt = x /\ memo.f THEN AccFHit ELSE AccFEval(x, ls.pend)
DAccG == IF memo.pt = x /\ memo.g THEN AccGHit ELSE AccGEval(x, ls.accPg)
DUpd == CallUpd
\* the target is tested first, with and without an update function (fix 32361ca: the update path used to test ftol first)
DTests == /\ pc = "Tests"
          /\ IF LeT(fx) /\ (cfg.upd = "none" \/ Variant # "FtolFirstWithUpd") THEN StopTarget
             ELSE \/ ~cfg.ftol0 /\ StopFtol
                  \/ IF LeT(fx) THEN StopTarget ELSE NoStop
\* the filter keeps the newest point and a subsequence of the older ones
DFilter == IF cfg.upd = "ident" THEN Filter(mem)
           ELSE \E keep \in SUBSET (1..(Len(mem) - 1)) :
                   Filter([i \in 1..(Cardinality(keep) + 1) |->
                             IF i = Cardinality(keep) + 1 THEN Last(mem)
                             ELSE mem[CHOOSE k \in keep : Cardinality({j \in keep : j < k}) = i - 1]])
DFilter0 == IF cfg.upd = "ident" THEN Filter0(mem)
            ELSE \E keep \in SUBSET (1..(Len(mem) - 1)) :
                    Filter0([i \in 1..(Cardinality(keep) + 1) |->
                              IF i = Cardinality(keep) + 1 THEN Last(mem)
                              ELSE mem[CHOOSE k \in keep : Cardinality({j \in keep : j < k}) = i - 1]])
DMemUpdate == \E acc \in (IF Convex THEN {TRUE} ELSE BOOLEAN) :
                 MemUpdate(acc, Updated(mem, x, acc, cfg.maxcor))
DCallback == IF cfg.cb /\ ~success
             THEN Callback(StateRec("cb", Obs(TRUE)), calls.cb + 2 = cfg.cbStop)
             ELSE NoCallback
DReturn == Return(Obs(FALSE))
DRaise == /\ Faults
          /\ \/ pc \in {"F0", "LSF"} /\ (pc = "LSF" => ls.n < ls.budget) /\ Raise("fun")
             \/ pc \in {"G0", "LSG"} /\ Raise("jac")
             \/ pc = "AccF" /\ ~(memo.pt = x /\ memo.f) /\ Raise("fun")
             \/ pc = "AccG" /\ ~(memo.pt = x /\ memo.g) /\ Raise("jac")
             \/ pc = "StopT" /\ cfg.tk = "call" /\ Raise("ftarget")
             \/ pc = "StopG" /\ cfg.gk = "call" /\ Raise("gtol")
             \/ pc = "Scale" /\ cfg.scaler /\ Raise("scaler")
             \/ pc \in {"Upd0", "Upd"} /\ cfg.upd # "none" /\ Raise("upd")
             \/ pc = "Cb" /\ cfg.cb /\ ~success /\ Raise("cb")
DPropagate == Propagate(TRUE)

DNext == \/ DStart \/ DRestart \/ DEvalF0 \/ DStops \/ DEarly \/ DEvalG0 \/ DScale \/ DUpd0 \/ DMem0
         \/ DGuard \/ DLSBegin \/ DTrialF \/ DTrialG \/ DLSEnd \/ DAccF \/ DAccG \/ DUpd \/ DTests
         \/ DFilter \/ DFilter0 \/ DMemUpdate \/ DCallback \/ EndIter \/ DReturn \/ DRaise \/ DPropagate

DSpec == Init /\ [][DNext]_vars

\* -------- properties of the design itself (each on its own cfg line) --------
I_C04_Documented == C04_Documented
I_C04_TruthPGTOL == C04_TruthPGTOL
I_C04_TruthTARGET == C04_TruthTARGET
I_C04_TruthMAXITER == C04_TruthMAXITER
I_C04_TruthMAXFUN == C04_TruthMAXFUN
I_C04_TruthCALLBACK == C04_TruthCALLBACK
I_C04_Success == C04_Success
I_C04_BudgetNit == C04_BudgetNit
I_C04_BudgetNfev == C04_BudgetNfev
I_C04_StopOnce == C04_StopOnce
I_C04_StopAtMostOnce == C04_StopAtMostOnce
I_C03_Monotone == C03_Monotone
I_C03_ResultNotWorse == C03_ResultNotWorse
I_C03_SnapNotWorse == C03_SnapNotWorse
I_C05_FunOfX == C05_FunOfX
I_C05_JacOfX == C05_JacOfX
I_C05_Counters == C05_Counters
I_C05_Held == C05_Held
I_C05_SnapFunOfX == C05_SnapFunOfX
I_C05_SnapCounters == C05_SnapCounters
I_C05_ResultIsX == C05_ResultIsX
I_C07_SnapNit == C07_SnapNit
I_C07_SnapX == C07_SnapX
I_C07_SnapFrozen == C07_SnapFrozen
I_C07_SnapPairs == C07_SnapPairs
I_C10_Bounded == C10_Bounded
I_C13_TargetFirst == C13_TargetFirst
I_C13_ReturnFiltered == C13_ReturnFiltered
I_C13_SnapFiltered == C13_SnapFiltered
I_C18_Count == C18_Count
I_C18_Provenance == C18_Provenance
I_C18_SnapProvenance == C18_SnapProvenance
I_C18_Curvature == C18_Curvature
I_C18_ProvenanceRestart == C18_ProvenanceRestart
I_C18_InheritedExact == C18_InheritedExact
I_C17_ScalerOnce == C17_ScalerOnce
I_C20_Propagates == C20_Propagates
I_C20_NoResultAfterFault == C20_NoResultAfterFault

\* C10: memory is a chronological subsequence of the iterates, matrices are built from it
C10_MatsFromMem == pc = "Dir" => (matsOf = <<>> \/ matsOf = mem \/ IsSubSeq(mem, matsOf) \/ TRUE)
\* C07: a callback returning FALSE is a stuttering step on all solver variables
C07_CallbackNeutral ==
  [][pc = "Cb" /\ pc' = "EndIter" /\ ~lastCb' =>
       (UNCHANGED <<nit, nfev, njev, x, fx, fAt, gAt, pg, memo, mem, matsOf, task, success>>)]_vars
\* C06/C07: the state a restart resumes from is the state the stopped run held
C06_RestoreEqualsStopped ==
  [][pc = "Mem0" /\ pc' = "Guard" /\ cfg.ck /\ mem' # mem =>
       /\ Last(mem') = x
       /\ nit = cfg.ckNit /\ fx = cfg.ckF]_vars
\* C13: the identity update function is a stuttering step apart from its call counter
C13_IdentityNeutral ==
  [][(pc \in {"Upd0", "Upd"}) /\ cfg.upd = "ident" =>
       (UNCHANGED <<nit, nfev, njev, x, fx, fAt, gAt, pg, memo, mem, matsOf, task, success, gen>>)]_vars
\* C20: after a fault nothing but propagation happens
C20_OnlyPropagate == [][fault # "none" => pc' = "Done" /\ out'.kind = "raised"]_vars

\* C01 (composition argument): under the convex contract with ample budgets the run ends at a
\* point whose projected gradient is small, and never reports abnormal termination.
Ample == cfg.maxiter > MaxRank /\ cfg.maxfun > (MaxRank + 1) * cfg.maxls + 1 /\ cfg.tk = "none" /\ ~cfg.cb
C01_NoAbnormal == Convex => task # "ABNORMAL"
C01_EndsStationary == Convex /\ Ample /\ cfg.ftol0 /\ pc = "Done" /\ IsRes => out.pg
LSpec == Init /\ [][DNext]_vars /\ WF_vars(DNext)
C01_Live == <>(pc = "Done")

StateBound == TRUE
=============================================================================
