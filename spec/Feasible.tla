------------------------------- MODULE Feasible -------------------------------
(***************************************************************************)
(* Rounding as an adversary (C02, C11, C16).  Numbers live on a toy        *)
(* floating-point grid (3-bit mantissa, exponents 0..EMax); the exact      *)
(* result of every arithmetic operation is replaced, nondeterministically, *)
(* by either neighbouring representable number (a superset of round to     *)
(* nearest).  One action per point-producing site of the code; the         *)
(* invariant asks that the produced point is inside [l, u] for ALL         *)
(* rounding choices.  Sites ending in a projection / assignment of the     *)
(* bound are safe by construction; sites ending in an addition are not.    *)
(***************************************************************************)
EXTENDS Integers, FiniteSets

CONSTANT EMax

Pow2(e) == IF e = 0 THEN 1 ELSE IF e = 1 THEN 2 ELSE IF e = 2 THEN 4 ELSE IF e = 3 THEN 8 ELSE 16
Rep == {m * Pow2(e) : m \in 0..7, e \in 0..EMax}          \* representable magnitudes
Top == 7 * Pow2(EMax)

\* neighbours of the exact rational a/b (b > 0, a >= 0) among the representable numbers
Below(a, b) == CHOOSE r \in Rep : r * b <= a /\ \A s \in Rep : s * b <= a => s <= r
Above(a, b) == IF \E r \in Rep : r * b >= a
               THEN CHOOSE r \in Rep : r * b >= a /\ \A s \in Rep : s * b >= a => r <= s
               ELSE Top
Fl(a, b) == {Below(a, b), Above(a, b)}

VARIABLES site, x, u, d, p
vars == <<site, x, u, d, p>>

\* lower bound is 0, upper bound u; the point x is feasible; direction d > 0 pushes towards u
Init == /\ site = "start" /\ p = 0
        /\ x \in Rep /\ u \in Rep /\ x <= u /\ d \in Rep \ {0}

Min(a, b) == IF a <= b THEN a ELSE b
Max(a, b) == IF a >= b THEN a ELSE b

\* base.py:97-120  clip2bounds                           p = min(max(x, l), u)
Clip == /\ site = "start" /\ site' = "Clip" /\ p' = Min(Max(x, 0), u) /\ UNCHANGED <<x, u, d>>
\* cauchy.py:231-235  variable fixed at its breakpoint     p = u
Pin == /\ site = "start" /\ site' = "Pin" /\ p' = u /\ UNCHANGED <<x, u, d>>
\* linesearch.py:88 + 245: stp = (u - x)/d ; p = x + stp*d   (as on the pinned tree)
RawMaxStepTrial ==
  /\ site = "start" /\ site' = "RawMaxStepTrial" /\ UNCHANGED <<x, u, d>>
  /\ \E stp \in Fl(u - x, d) : \E prod \in Fl(stp * d, 1) : p' \in Fl(x + prod, 1)
\* the same with the trial point projected onto the box
ClippedMaxStepTrial ==
  /\ site = "start" /\ site' = "ClippedMaxStepTrial" /\ UNCHANGED <<x, u, d>>
  /\ \E stp \in Fl(u - x, d) : \E prod \in Fl(stp * d, 1) : \E s \in Fl(x + prod, 1) : p' = Min(Max(s, 0), u)
\* main.py:533,571 (pinned tree): d = xbar - x with xbar = u ; p = x + 1*d
RawUnitStep ==
  /\ site = "start" /\ site' = "RawUnitStep" /\ UNCHANGED <<x, u, d>>
  /\ \E dd \in Fl(u - x, 1) : p' \in Fl(x + dd, 1)
ClippedUnitStep ==
  /\ site = "start" /\ site' = "ClippedUnitStep" /\ UNCHANGED <<x, u, d>>
  /\ \E dd \in Fl(u - x, 1) : \E s \in Fl(x + dd, 1) : p' = Min(Max(s, 0), u)
\* subspacemin.py:426-440: alpha = min(1, (u - xc)/dhat) ; p = xc + alpha*dhat   (dhat = d, xc = x)
RawSubspaceTruncate ==
  /\ site = "start" /\ site' = "RawSubspaceTruncate" /\ UNCHANGED <<x, u, d>>
  /\ \E q \in Fl(u - x, d) : \E prod \in Fl(q * d, 1) : p' \in Fl(x + prod, 1)
\* scalar_function.py:97-102 / scipy _numdiff: one-sided stencil point x + h kept inside by flipping
Stencil ==
  /\ site = "start" /\ site' = "Stencil" /\ UNCHANGED <<x, u, d>>
  /\ \E h \in {1, 2} : \E s \in Fl(x + h, 1) : p' = IF s <= u THEN s ELSE Below(Max(x - h, 0), 1)

Next == Clip \/ Pin \/ RawMaxStepTrial \/ ClippedMaxStepTrial \/ RawUnitStep \/ ClippedUnitStep
        \/ RawSubspaceTruncate \/ Stencil
Spec == Init /\ [][Next]_vars

InBox == 0 <= p /\ p <= u
SafeSites == {"start", "Clip", "Pin", "ClippedMaxStepTrial", "ClippedUnitStep", "Stencil"}
\* holds: the projected sites are feasible for every rounding
SafeSitesFeasible == site \in SafeSites => InBox
\* does NOT hold (expected counterexample): a site that ends in an addition can leave the box
AllSitesFeasible == InBox
Raw_MaxStepTrial_Feasible == site = "RawMaxStepTrial" => InBox
Raw_UnitStep_Feasible == site = "RawUnitStep" => InBox
Raw_SubspaceTruncate_Feasible == site = "RawSubspaceTruncate" => InBox
\* degenerate side: with l = u the point does not move
FixedUnmoved == (site \in SafeSites /\ u = 0) => p = 0
=============================================================================
