SPECIFICATION Spec
