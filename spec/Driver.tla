------------------------------- MODULE Driver -------------------------------
(***************************************************************************)
(* minimize_lbfgsb (lbfgsb/main.py) as a sequential state machine.         *)
(*                                                                         *)
(* One action per critical section of the code; every action takes the     *)
(* observations it depends on as parameters ("points are identities,       *)
(* values are facts": a point is an id, an objective value is its dense    *)
(* rank among the values of the run).  Two next-state relations use the    *)
(* same actions:                                                           *)
(*   DNext     (this module)   - the design: parameters are chosen by the  *)
(*                               mechanisms the code is supposed to        *)
(*                               implement and by an adversarial           *)
(*                               environment; checked exhaustively by TLC  *)
(*                               against the invariants below (MCDriver).  *)
(*   TraceNext (DriverTrace)   - parameters are bound to the events        *)
(*                               recorded from a real run; the same        *)
(*                               invariants are evaluated in every state.  *)
(*                                                                         *)
(* Invariants are named after the property clause they encode (C03..C20 of *)
(* /verif/properties.jsonl).                                               *)
(***************************************************************************)
EXTENDS Integers, Sequences, FiniteSets, TLC

CONSTANTS MaxRank,     \* design run: objective ranks 0..MaxRank
          MaxChain,    \* design run: number of restarts explored
          Variant      \* "none", or the name of a deliberately wrong mechanism (self-test of the
                       \* invariants: "ClassifyEq", "SnapNitOff", "LSAnyTrial", "FilterAfterTests", "NoFilter0", "FtolFirstWithUpd"); never used for verdicts

VARIABLES
  cfg,      \* configuration of the current call (record, see MCDriver!Configs)
  chain,    \* restarts performed so far
  pc,       \* control location
  nit, nfev, njev,
  nit0, n0, \* nit at (re)start; nfev when iterating starts (C04 budget clause)
  f0r,      \* rank of the objective at the start point of the chain (C03)
  x,        \* id of the current iterate
  fx,       \* rank of the objective value held for the current iterate (f0 in the code)
  fAt, gAt, \* ids of the points at which the held f0 / grad were computed (C05)
  pg,       \* fact: projected gradient of (x, held grad) <= gtol
  memo,     \* ScalarFunction memo cell [pt, f, g] (scalar_function.py:153-188)
  mem,      \* the X/G deque, as point ids, oldest first (main.py:362,476)
  matsOf,   \* ids the compact matrices were last built from (<<>> = identity)
  ls,       \* line-search sub-machine
  task, success,
  calls,    \* user-callable call counters of the current call
  lastCb,   \* what the most recent callback returned
  snap,     \* most recent callback state (record) or NoSnap
  npts,     \* point ids allocated so far (design run)
  gen,      \* generation of the objective definition (C13)
  fgen,     \* generation at which the stored sequence last passed the curvature filter (C13/C18)
  uphill,   \* TRUE once an accepted step increased the objective (C03)
  fault,    \* "none" | kind of user callable that raised (C20)
  out       \* NoOut | result record | raised record

vars == <<cfg, chain, pc, nit, nfev, njev, nit0, n0, f0r, x, fx, fAt, gAt, pg, memo, mem, matsOf,
          ls, task, success, calls, lastCb, snap, npts, gen, fgen, uphill, fault, out>>

-----------------------------------------------------------------------------
NoOut   == [kind |-> "none"]
NoSnap  == [kind |-> "none"]
NoLS    == [on |-> FALSE, x0 |-> 0, budget |-> 0, n |-> 0, trials |-> <<>>, pend |-> 0, accPg |-> FALSE]
NoCalls == [ftarget |-> 0, gtol |-> 0, scaler |-> 0, upd |-> 0, cb |-> 0]
NoCfg   == [maxiter |-> 0, maxfun |-> 0, maxls |-> 0, maxcor |-> 0, tk |-> "none", gk |-> "float",
            T |-> -1, ftol0 |-> FALSE, cb |-> FALSE, cbStop |-> 0, upd |-> "none", scaler |-> FALSE,
            fd |-> FALSE, env |-> "any", ck |-> FALSE, ckNit |-> 0, ckNfev |-> 0, ckNjev |-> 0,
            ckF |-> -1, ckMem |-> <<>>, ckPg |-> FALSE]

Documented == {"PGTOL", "FTOL", "TARGET", "MAXITER", "MAXFUN", "CALLBACK", "ABNORMAL"}

Max(a, b) == IF a >= b THEN a ELSE b
Min(a, b) == IF a <= b THEN a ELSE b
LastN(s, k) == IF Len(s) <= k THEN s ELSE SubSeq(s, Len(s) - k + 1, Len(s))
AllButLast(s) == IF s = <<>> THEN <<>> ELSE SubSeq(s, 1, Len(s) - 1)
Last(s) == s[Len(s)]
Range(s) == {s[i] : i \in DOMAIN s}
Pairs(s) == [i \in 1..(Len(s) - 1) |-> <<s[i], s[i + 1]>>]
IsSubSeq(s, t) ==   \* s is obtained from t by deleting elements (order kept)
  LET RECURSIVE F(_, _)
      F(i, j) == IF i > Len(s) THEN TRUE
                 ELSE IF j > Len(t) THEN FALSE
                 ELSE IF s[i] = t[j] THEN F(i + 1, j + 1) ELSE F(i, j + 1)
  IN F(1, 1)

LeT(r) == cfg.tk # "none" /\ r >= 0 /\ r <= cfg.T

Init ==
  /\ cfg = NoCfg /\ chain = 0 /\ pc = "Idle"
  /\ nit = 0 /\ nfev = 0 /\ njev = 0 /\ nit0 = 0 /\ n0 = 0 /\ f0r = -1
  /\ x = 0 /\ fx = -1 /\ fAt = 0 /\ gAt = 0 /\ pg = FALSE
  /\ memo = [pt |-> 0, f |-> FALSE, g |-> FALSE]
  /\ mem = <<>> /\ matsOf = <<>> /\ ls = NoLS
  /\ task = "START" /\ success = FALSE /\ calls = NoCalls /\ lastCb = FALSE /\ snap = NoSnap
  /\ npts = 0 /\ gen = 0 /\ fgen = 0 /\ uphill = FALSE /\ fault = "none" /\ out = NoOut

-----------------------------------------------------------------------------
(* main.py:347-387, 404-407, 684-748: bounds, clip, restore, counters.     *)
Start(c, p) ==
  /\ pc = "Idle"
  /\ cfg' = c
  /\ nit' = IF c.ck THEN c.ckNit ELSE 0
  /\ nit0' = nit'
  /\ nfev' = IF c.ck THEN c.ckNfev ELSE 0
  /\ njev' = IF c.ck THEN c.ckNjev ELSE 0
  /\ n0' = nfev'
  /\ x' = p
  /\ fx' = IF c.ck THEN c.ckF ELSE -1
  /\ f0r' = IF chain = 0 /\ c.ck THEN c.ckF ELSE IF chain = 0 THEN -1 ELSE f0r
  /\ fAt' = IF c.ck THEN p ELSE 0
  /\ gAt' = IF c.ck THEN p ELSE 0
  /\ pg' = IF c.ck THEN c.ckPg ELSE FALSE
  /\ memo' = [pt |-> p, f |-> FALSE, g |-> FALSE]
  /\ mem' = IF c.ck THEN c.ckMem ELSE <<>>
  /\ matsOf' = <<>> /\ ls' = NoLS
  /\ task' = "START" /\ success' = FALSE /\ calls' = NoCalls /\ lastCb' = FALSE
  /\ snap' = NoSnap /\ npts' = Max(npts, p) /\ uphill' = FALSE /\ fault' = "none" /\ out' = NoOut
  /\ pc' = IF c.ck THEN "StopT" ELSE "F0"
  /\ UNCHANGED <<chain, gen, fgen>>

(* A user objective call: counters and memo (scalar_function.py:105-169).  *)
CountF(p) == /\ nfev' = nfev + 1
             /\ memo' = IF memo.pt = p THEN [memo EXCEPT !.f = TRUE]
                                       ELSE [pt |-> p, f |-> TRUE, g |-> FALSE]
CountG(p) == /\ njev' = njev + 1
             /\ memo' = IF memo.pt = p THEN [memo EXCEPT !.g = TRUE]
                                       ELSE [pt |-> p, f |-> FALSE, g |-> TRUE]

(* main.py:384-385 *)
EvalF0(p, fr) ==
  /\ pc = "F0" /\ p = x
  /\ CountF(p) /\ fx' = fr /\ fAt' = p /\ f0r' = fr /\ n0' = nfev + 1
  /\ pc' = "StopT"
  /\ UNCHANGED <<cfg, chain, nit, njev, nit0, x, gAt, pg, mem, matsOf, ls, task, success, calls,
                 lastCb, snap, npts, gen, fgen, uphill, fault, out>>

(* main.py:389-401: callable ftarget / gtol are resolved exactly once each *)
CallStop(who) ==
  /\ \/ pc = "StopT" /\ who = "ftarget" /\ pc' = "StopG"
     \/ pc = "StopG" /\ who = "gtol" /\ pc' = "Early"
  /\ calls' = [calls EXCEPT ![who] = @ + 1]
  /\ UNCHANGED <<cfg, chain, nit, nfev, njev, nit0, n0, f0r, x, fx, fAt, gAt, pg, memo, mem, matsOf,
                 ls, task, success, lastCb, snap, npts, gen, fgen, uphill, fault, out>>
\* the same calls made later than the code does today (any place before iterating): the order is
\* not part of any property, only "exactly once" (C04) is
LateCallStop(who) ==
  /\ pc \in {"Early", "G0", "Scale", "Upd0", "Mem0", "Guard"}
  /\ calls' = [calls EXCEPT ![who] = @ + 1]
  /\ UNCHANGED <<cfg, chain, pc, nit, nfev, njev, nit0, n0, f0r, x, fx, fAt, gAt, pg, memo, mem, matsOf,
                 ls, task, success, lastCb, snap, npts, gen, fgen, uphill, fault, out>>
SkipStop ==
  /\ \/ pc = "StopT" /\ pc' = "StopG"
     \/ pc = "StopG" /\ pc' = "Early"
  /\ UNCHANGED <<cfg, chain, nit, nfev, njev, nit0, n0, f0r, x, fx, fAt, gAt, pg, memo, mem, matsOf,
                 ls, task, success, calls, lastCb, snap, npts, gen, fgen, uphill, fault, out>>

(* main.py:412-433: the start point already meets the target *)
EarlyTarget ==
  /\ pc = "Early"
  /\ task' = "TARGET" /\ success' = TRUE
  /\ pc' = "Classified"
  /\ UNCHANGED <<cfg, chain, nit, nfev, njev, nit0, n0, f0r, x, fx, fAt, gAt, pg, memo, mem, matsOf,
                 ls, calls, lastCb, snap, npts, gen, fgen, uphill, fault, out>>
NoEarlyTarget ==
  /\ pc = "Early"
  /\ pc' = IF cfg.ck THEN "Scale" ELSE "G0"
  /\ UNCHANGED <<cfg, chain, nit, nfev, njev, nit0, n0, f0r, x, fx, fAt, gAt, pg, memo, mem, matsOf,
                 ls, task, success, calls, lastCb, snap, npts, gen, fgen, uphill, fault, out>>

(* A stencil evaluation of a finite-difference gradient (counts in nfev).  *)
Stencil ==
  /\ cfg.fd /\ pc \in {"G0", "LSG", "AccG"}
  /\ nfev' = nfev + 1
  /\ n0' = IF pc = "G0" THEN nfev + 1 ELSE n0
  /\ UNCHANGED <<cfg, chain, pc, nit, njev, nit0, f0r, x, fx, fAt, gAt, pg, memo, mem, matsOf,
                 ls, task, success, calls, lastCb, snap, npts, gen, fgen, uphill, fault, out>>

(* main.py:436-439 *)
EvalG0(p, pgf) ==
  /\ pc = "G0" /\ p = x
  /\ CountG(p) /\ gAt' = p /\ pg' = pgf
  /\ pc' = "Scale"
  /\ UNCHANGED <<cfg, chain, nit, nfev, nit0, n0, f0r, x, fx, fAt, mem, matsOf, ls, task, success,
                 calls, lastCb, snap, npts, gen, fgen, uphill, fault, out>>

(* main.py:443-459: gradient scaler, early update of the objective definition *)
CallScaler ==
  /\ pc = "Scale"
  /\ calls' = [calls EXCEPT !.scaler = @ + 1]
  /\ pc' = "Upd0"
  /\ UNCHANGED <<cfg, chain, nit, nfev, njev, nit0, n0, f0r, x, fx, fAt, gAt, pg, memo, mem, matsOf,
                 ls, task, success, lastCb, snap, npts, gen, fgen, uphill, fault, out>>
SkipScaler ==
  /\ pc = "Scale" /\ pc' = "Upd0"
  /\ UNCHANGED <<cfg, chain, nit, nfev, njev, nit0, n0, f0r, x, fx, fAt, gAt, pg, memo, mem, matsOf,
                 ls, task, success, calls, lastCb, snap, npts, gen, fgen, uphill, fault, out>>
\* a deviation a real trace may show (never taken by the design): the scaler invoked AFTER the initial update function;
\* followed so that the rest of the trace is judged, and reported by the trace clause C17_ScalerBeforeUpdate
CallScalerLate ==
  /\ pc \in {"Filter0", "Mem0"} /\ calls.scaler = 0 /\ calls.upd > 0
  /\ calls' = [calls EXCEPT !.scaler = @ + 1]
  /\ UNCHANGED <<cfg, chain, pc, nit, nfev, njev, nit0, n0, f0r, x, fx, fAt, gAt, pg, memo, mem, matsOf,
                 ls, task, success, lastCb, snap, npts, gen, fgen, uphill, fault, out>>
CallUpd0 ==
  /\ pc = "Upd0"
  /\ calls' = [calls EXCEPT !.upd = @ + 1]
  /\ gen' = IF cfg.upd = "rewrite" THEN gen + 1 ELSE gen
  /\ pc' = IF mem # <<>> /\ Variant # "NoFilter0" THEN "Filter0" ELSE "Mem0"   \* restart: the restored sequence is filtered (fix 645f7b7)
  /\ fgen' = IF mem = <<>> THEN gen' ELSE fgen        \* nothing stored yet: nothing to filter
  /\ UNCHANGED <<cfg, chain, nit, nfev, njev, nit0, n0, f0r, x, fx, fAt, gAt, pg, memo, mem, matsOf,
                 ls, task, success, lastCb, snap, npts, uphill, fault, out>>
SkipUpd0 ==
  /\ pc = "Upd0" /\ pc' = "Mem0"
  /\ UNCHANGED <<cfg, chain, nit, nfev, njev, nit0, n0, f0r, x, fx, fAt, gAt, pg, memo, mem, matsOf,
                 ls, task, success, calls, lastCb, snap, npts, gen, fgen, uphill, fault, out>>

(* bfgsmats.py:300-341: curvature test, append, evict the oldest.          *)
Updated(m, cand, acc, maxcor) ==
  IF acc THEN LastN(Append(m, cand), maxcor + 1) ELSE m

(* main.py:461-477: first entry of the history, or re-insertion of the     *)
(* current point after a restore.                                          *)
Mem0First ==
  /\ pc = "Mem0" /\ mem = <<>>
  /\ mem' = <<x>> /\ pc' = "Guard"
  /\ UNCHANGED <<cfg, chain, nit, nfev, njev, nit0, n0, f0r, x, fx, fAt, gAt, pg, memo, matsOf,
                 ls, task, success, calls, lastCb, snap, npts, gen, fgen, uphill, fault, out>>
Mem0Restart(acc, ids) ==
  /\ pc = "Mem0" /\ mem # <<>>
  /\ mem' = ids
  /\ matsOf' = IF acc THEN ids ELSE matsOf
  /\ pc' = "Guard"
  /\ UNCHANGED <<cfg, chain, nit, nfev, njev, nit0, n0, f0r, x, fx, fAt, gAt, pg, memo,
                 ls, task, success, calls, lastCb, snap, npts, gen, fgen, uphill, fault, out>>

(* main.py:492-497 *)
GuardEnter ==
  /\ pc = "Guard" /\ pc' = "Dir"
  /\ UNCHANGED <<cfg, chain, nit, nfev, njev, nit0, n0, f0r, x, fx, fAt, gAt, pg, memo, mem, matsOf,
                 ls, task, success, calls, lastCb, snap, npts, gen, fgen, uphill, fault, out>>
GuardExit ==
  /\ pc = "Guard" /\ pc' = "Classify"
  /\ UNCHANGED <<cfg, chain, nit, nfev, njev, nit0, n0, f0r, x, fx, fAt, gAt, pg, memo, mem, matsOf,
                 ls, task, success, calls, lastCb, snap, npts, gen, fgen, uphill, fault, out>>

(* main.py:505-554 (Cauchy point, subspace step are kernels: Cauchy.tla,   *)
(* Subspace.tla); the line search starts at the current iterate.           *)
LSBegin(p, budget) ==
  /\ pc = "Dir"
  /\ ls' = [on |-> TRUE, x0 |-> p, budget |-> budget, n |-> 0, trials |-> <<>>, pend |-> 0, accPg |-> FALSE]
  /\ pc' = "LSF"
  /\ UNCHANGED <<cfg, chain, nit, nfev, njev, nit0, n0, f0r, x, fx, fAt, gAt, pg, memo, mem, matsOf,
                 task, success, calls, lastCb, snap, npts, gen, fgen, uphill, fault, out>>

(* linesearch.py:297: one trial = objective, then gradient, at a new point *)
TrialF(p, fr) ==
  /\ pc = "LSF"
  /\ CountF(p)
  /\ ls' = [ls EXCEPT !.n = @ + 1, !.trials = Append(@, [pt |-> p, fr |-> fr, pg |-> FALSE]), !.pend = p]
  /\ npts' = Max(npts, p)
  /\ pc' = "LSG"
  /\ UNCHANGED <<cfg, chain, nit, njev, nit0, n0, f0r, x, fx, fAt, gAt, pg, mem, matsOf, task, success,
                 calls, lastCb, snap, gen, fgen, uphill, fault, out>>
\* (the design passes p = ls.pend; a real trace whose gradient evaluation is at another point is followed and judged
\* by the trace clause C05_GradAtTrialPoint instead of being a structural divergence)
TrialG(p, pgf) ==
  /\ pc = "LSG"
  /\ CountG(p)
  /\ ls' = [ls EXCEPT !.trials[Len(ls.trials)].pg = pgf]
  /\ pc' = "LSF"
  /\ UNCHANGED <<cfg, chain, nit, nfev, nit0, n0, f0r, x, fx, fAt, gAt, pg, mem, matsOf, task,
                 success, calls, lastCb, snap, npts, gen, fgen, uphill, fault, out>>

(* main.py:555-568: failed line search *)
LSFailAbort ==
  /\ pc = "LSF" /\ Len(mem) = 1
  /\ task' = "ABNORMAL" /\ success' = FALSE
  /\ ls' = [ls EXCEPT !.on = FALSE]
  /\ pc' = "Classify"
  /\ UNCHANGED <<cfg, chain, nit, nfev, njev, nit0, n0, f0r, x, fx, fAt, gAt, pg, memo, mem, matsOf,
                 calls, lastCb, snap, npts, gen, fgen, uphill, fault, out>>
LSFailReset ==
  /\ pc = "LSF" /\ Len(mem) > 1
  /\ task' = "RESTART"
  /\ mem' = <<Last(mem)>> /\ matsOf' = <<>>
  /\ ls' = [ls EXCEPT !.on = FALSE]
  /\ pc' = "EndIter"
  /\ UNCHANGED <<cfg, chain, nit, nfev, njev, nit0, n0, f0r, x, fx, fAt, gAt, pg, memo, success,
                 calls, lastCb, snap, npts, gen, fgen, uphill, fault, out>>

(* main.py:571-575: the iterate moves; f and g are (re)evaluated there     *)
(* unless the memo cell already holds them.                                *)
TrialPg(p) == LET S == {i \in DOMAIN ls.trials : ls.trials[i].pt = p}
              IN IF S = {} THEN FALSE ELSE ls.trials[CHOOSE i \in S : \A j \in S : j <= i].pg
LSStep(p, fr) ==
  /\ pc = "LSF"
  /\ x' = p
  /\ uphill' = (uphill \/ (gen = 0 /\ fr >= 0 /\ fr > fx))
  /\ ls' = [ls EXCEPT !.on = FALSE, !.pend = fr, !.accPg = TrialPg(p)]
  /\ pc' = "AccF"
  /\ UNCHANGED <<cfg, chain, nit, nfev, njev, nit0, n0, f0r, fx, fAt, gAt, pg, memo, mem, matsOf,
                 task, success, calls, lastCb, snap, npts, gen, fgen, fault, out>>
AccFHit ==      \* memo holds f(x): no user call
  /\ pc = "AccF" /\ memo.pt = x /\ memo.f
  /\ fx' = ls.pend /\ fAt' = x /\ pc' = "AccG"
  /\ UNCHANGED <<cfg, chain, nit, nfev, njev, nit0, n0, f0r, x, gAt, pg, memo, mem, matsOf, ls,
                 task, success, calls, lastCb, snap, npts, gen, fgen, uphill, fault, out>>
\* (the point evaluated here IS the new iterate; normally the accepted trial point, but a solver that
\* recomputes the iterate - x + (xbar - x), xbar itself, a projection - may land on a neighbouring float)
AccFEval(p, fr) ==
  /\ pc = "AccF"
  /\ x' = p
  /\ uphill' = (uphill \/ (gen = 0 /\ fr >= 0 /\ fx >= 0 /\ fr > fx))
  /\ CountF(p) /\ fx' = fr /\ fAt' = p /\ pc' = "AccG"
  /\ UNCHANGED <<cfg, chain, nit, njev, nit0, n0, f0r, gAt, pg, mem, matsOf, ls,
                 task, success, calls, lastCb, snap, npts, gen, fgen, fault, out>>
AccFSkip ==     \* no call although the memo does not hold f(x): the held value is stale
  /\ pc = "AccF" /\ ~(memo.pt = x /\ memo.f)
  /\ pc' = "AccG"
  /\ UNCHANGED <<cfg, chain, nit, nfev, njev, nit0, n0, f0r, x, fx, fAt, gAt, pg, memo, mem, matsOf, ls,
                 task, success, calls, lastCb, snap, npts, gen, fgen, uphill, fault, out>>
AfterAcc == IF cfg.upd = "none" THEN "Tests" ELSE "Upd"
AccGHit ==
  /\ pc = "AccG" /\ memo.pt = x /\ memo.g
  /\ gAt' = x /\ pg' = ls.accPg /\ pc' = AfterAcc
  /\ UNCHANGED <<cfg, chain, nit, nfev, njev, nit0, n0, f0r, x, fx, fAt, memo, mem, matsOf, ls,
                 task, success, calls, lastCb, snap, npts, gen, fgen, uphill, fault, out>>
AccGEval(p, pgf) ==      \* (same remark: C05_GradAtIterate in traces)
  /\ pc = "AccG"
  /\ CountG(p) /\ gAt' = p /\ pg' = pgf /\ pc' = AfterAcc
  /\ UNCHANGED <<cfg, chain, nit, nfev, nit0, n0, f0r, x, fx, fAt, mem, matsOf, ls,
                 task, success, calls, lastCb, snap, npts, gen, fgen, uphill, fault, out>>
AccGSkip ==
  /\ pc = "AccG" /\ ~(memo.pt = x /\ memo.g)
  /\ pc' = AfterAcc
  /\ UNCHANGED <<cfg, chain, nit, nfev, njev, nit0, n0, f0r, x, fx, fAt, gAt, pg, memo, mem, matsOf, ls,
                 task, success, calls, lastCb, snap, npts, gen, fgen, uphill, fault, out>>

(* main.py:577-598: on-the-fly redefinition, curvature filter, stop tests (the filter runs BEFORE the tests since   *)
(* fix ad0fb3f: a run stopped by ftol / target in this iteration returns the filtered sequence)                   *)
CallUpd ==
  /\ pc = "Upd" /\ pc' = (IF Variant = "FilterAfterTests" THEN "Tests" ELSE "Filter")
  /\ UNCHANGED fgen
  /\ calls' = [calls EXCEPT !.upd = @ + 1]
  /\ gen' = IF cfg.upd = "rewrite" THEN gen + 1 ELSE gen
  /\ UNCHANGED <<cfg, chain, nit, nfev, njev, nit0, n0, f0r, x, fx, fAt, gAt, pg, memo, mem, matsOf,
                 ls, task, success, lastCb, snap, npts, uphill, fault, out>>
StopTarget ==
  /\ pc = "Tests"
  /\ task' = "TARGET" /\ success' = TRUE /\ pc' = "Classify"
  /\ UNCHANGED <<cfg, chain, nit, nfev, njev, nit0, n0, f0r, x, fx, fAt, gAt, pg, memo, mem, matsOf,
                 ls, calls, lastCb, snap, npts, gen, fgen, uphill, fault, out>>
StopFtol ==
  /\ pc = "Tests"
  /\ task' = "FTOL" /\ success' = TRUE /\ pc' = "Classify"
  /\ UNCHANGED <<cfg, chain, nit, nfev, njev, nit0, n0, f0r, x, fx, fAt, gAt, pg, memo, mem, matsOf,
                 ls, calls, lastCb, snap, npts, gen, fgen, uphill, fault, out>>
NoStop ==
  /\ pc = "Tests"
  /\ pc' = (IF Variant = "FilterAfterTests" /\ cfg.upd # "none" THEN "Filter" ELSE "MemUpd")
  /\ UNCHANGED <<cfg, chain, nit, nfev, njev, nit0, n0, f0r, x, fx, fAt, gAt, pg, memo, mem, matsOf,
                 ls, task, success, calls, lastCb, snap, npts, gen, fgen, uphill, fault, out>>
(* bfgsmats.py:388-429 *)
Filter(ids) ==
  /\ pc = "Filter"
  /\ mem' = ids /\ fgen' = gen
  /\ pc' = (IF Variant = "FilterAfterTests" THEN "MemUpd" ELSE "Tests")
  /\ UNCHANGED <<cfg, chain, nit, nfev, njev, nit0, n0, f0r, x, fx, fAt, gAt, pg, memo, matsOf,
                 ls, task, success, calls, lastCb, snap, npts, gen, uphill, fault, out>>
Filter0(ids) ==     \* main.py:456-461, restart only
  /\ pc = "Filter0"
  /\ mem' = ids /\ fgen' = gen
  /\ pc' = "Mem0"
  /\ UNCHANGED <<cfg, chain, nit, nfev, njev, nit0, n0, f0r, x, fx, fAt, gAt, pg, memo, matsOf,
                 ls, task, success, calls, lastCb, snap, npts, gen, uphill, fault, out>>

(* main.py:600-610 *)
MemUpdate(acc, ids) ==
  /\ pc = "MemUpd"
  /\ mem' = ids
  /\ matsOf' = IF acc THEN ids ELSE matsOf
  /\ pc' = "Cb"
  /\ UNCHANGED <<cfg, chain, nit, nfev, njev, nit0, n0, f0r, x, fx, fAt, gAt, pg, memo,
                 ls, task, success, calls, lastCb, snap, npts, gen, fgen, uphill, fault, out>>

(* main.py:616-636 *)
Callback(s, ret) ==
  /\ pc = "Cb"
  /\ calls' = [calls EXCEPT !.cb = @ + 1]
  /\ snap' = s
  /\ lastCb' = ret
  /\ task' = IF ret THEN "CALLBACK" ELSE task
  /\ success' = IF ret THEN TRUE ELSE success
  /\ pc' = "EndIter"
  /\ UNCHANGED <<cfg, chain, nit, nfev, njev, nit0, n0, f0r, x, fx, fAt, gAt, pg, memo, mem, matsOf,
                 ls, npts, gen, fgen, uphill, fault, out>>
NoCallback ==
  /\ pc = "Cb"
  /\ pc' = "EndIter"
  /\ UNCHANGED <<cfg, chain, nit, nfev, njev, nit0, n0, f0r, x, fx, fAt, gAt, pg, memo, mem, matsOf,
                 ls, task, success, calls, lastCb, snap, npts, gen, fgen, uphill, fault, out>>

(* main.py:645 *)
EndIter ==
  /\ pc = "EndIter"
  /\ nit' = nit + 1 /\ pc' = "Guard"
  /\ UNCHANGED <<cfg, chain, nfev, njev, nit0, n0, f0r, x, fx, fAt, gAt, pg, memo, mem, matsOf,
                 ls, task, success, calls, lastCb, snap, npts, gen, fgen, uphill, fault, out>>

(* main.py:653-664: final classification of the stop reason.  `pgS` is the *)
(* fact "projected gradient of (x, grad) <= gtol".                         *)
Classified ==
  IF pg THEN [task |-> "PGTOL", success |-> TRUE]
  ELSE IF (IF Variant = "ClassifyEq" THEN nit = cfg.maxiter ELSE nit >= cfg.maxiter)
       THEN [task |-> "MAXITER", success |-> TRUE]
  ELSE IF nfev >= cfg.maxfun THEN [task |-> "MAXFUN", success |-> TRUE]
  ELSE [task |-> task, success |-> success]

(* The record every emitted state is built from: main.py:418-431,          *)
(* 619-633, 667-681 use the same constructor (C07).                        *)
StateRec(kind, o) ==
  [kind |-> kind, x |-> o.x, msg |-> o.msg, success |-> o.success,
   nit |-> o.nit, nfev |-> o.nfev, njev |-> o.njev,
   funOk |-> o.funOk, jacOk |-> o.jacOk, pg |-> o.pg, leT |-> o.leT, fr |-> o.fr,
   prov |-> o.prov, yOk |-> o.yOk, exact |-> o.exact, yAp |-> o.yAp, syPos |-> o.syPos, frozen |-> o.frozen,
   \* the model's own bookkeeping at the moment of emission
   mx |-> x, mnit |-> nit, mnfev |-> nfev, mnjev |-> njev, mmem |-> mem, mfx |-> fx,
   mfAt |-> fAt, mgAt |-> gAt, mlastCb |-> lastCb, mcalls |-> calls, mgen |-> gen, mfilt |-> (fgen = gen),
   muphill |-> uphill, mtask |-> task, mpc |-> pc]

Return(o) ==
  /\ pc \in {"Classify", "Classified"}
  /\ out' = StateRec(IF pc = "Classified" THEN "early" ELSE "result", o)
  /\ pc' = "Done"
  /\ UNCHANGED <<cfg, chain, nit, nfev, njev, nit0, n0, f0r, x, fx, fAt, gAt, pg, memo, mem, matsOf,
                 ls, task, success, calls, lastCb, snap, npts, gen, fgen, uphill, fault>>

(* C20: a user callable raises; nothing else may happen than propagation.  *)
Raise(kind) ==
  /\ fault = "none" /\ pc \notin {"Idle", "Done", "Raised"}
  /\ fault' = kind /\ pc' = "Raised"
  /\ UNCHANGED <<cfg, chain, nit, nfev, njev, nit0, n0, f0r, x, fx, fAt, gAt, pg, memo, mem, matsOf,
                 ls, task, success, calls, lastCb, snap, npts, gen, fgen, uphill, out>>
Propagate(same) ==
  /\ pc = "Raised"
  /\ out' = [kind |-> "raised", same |-> same, fault |-> fault]
  /\ pc' = "Done"
  /\ UNCHANGED <<cfg, chain, nit, nfev, njev, nit0, n0, f0r, x, fx, fAt, gAt, pg, memo, mem, matsOf,
                 ls, task, success, calls, lastCb, snap, npts, gen, fgen, uphill, fault>>

(* A restart from the returned result (checkpoint). *)
Restart ==
  /\ pc = "Done" /\ out.kind \in {"result", "early"}
  /\ chain' = chain + 1
  /\ pc' = "Idle"
  /\ UNCHANGED <<cfg, nit, nfev, njev, nit0, n0, f0r, x, fx, fAt, gAt, pg, memo, mem, matsOf,
                 ls, task, success, calls, lastCb, snap, npts, gen, fgen, uphill, fault, out>>

-----------------------------------------------------------------------------
(***************************************************************************)
(* Invariants (state predicates over the emitted records `out` and `snap`  *)
(* and the bookkeeping).  Each is one clause of a listed property.         *)
(***************************************************************************)
IsRes == out.kind \in {"result", "early"}

\* C04: one of the documented reasons ...
C04_Documented == IsRes => out.msg \in Documented
\* ... and the reason is true of the returned state
C04_TruthPGTOL    == IsRes /\ out.msg = "PGTOL" => out.pg
C04_TruthTARGET   == IsRes /\ out.msg = "TARGET" => out.leT
C04_TruthMAXITER  == IsRes /\ out.msg = "MAXITER" => out.nit >= cfg.maxiter
C04_TruthMAXFUN   == IsRes /\ out.msg = "MAXFUN" => out.nfev >= cfg.maxfun
C04_TruthCALLBACK == IsRes /\ out.msg = "CALLBACK" => out.mlastCb
C04_Success       == IsRes => (out.success = (out.msg # "ABNORMAL"))
C04_BudgetNit     == nit <= Max(cfg.maxiter, nit0)
C04_BudgetNfev    == ~cfg.fd /\ pc # "Idle" => nfev <= Max(cfg.maxfun, n0) + 1
C04_StopOnce      == IsRes =>
                       /\ (cfg.tk = "call" => out.mcalls.ftarget = 1)
                       /\ (cfg.gk = "call" => out.mcalls.gtol = 1)
C04_StopAtMostOnce == calls.ftarget <= 1 /\ calls.gtol <= 1

\* C03: the objective never increases from one accepted iterate to the next
C03_Monotone  == ~uphill
C03_ResultNotWorse == IsRes /\ out.mgen = 0 /\ out.fr >= 0 /\ f0r >= 0 => out.fr <= f0r
C03_SnapNotWorse == snap.kind = "cb" /\ snap.mgen = 0 /\ snap.fr >= 0 /\ f0r >= 0 => snap.fr <= f0r

\* C05: fun and jac belong to x; counters equal the calls made
C05_FunOfX   == IsRes /\ out.njev >= 1 /\ out.mgen = 0 => out.funOk
C05_JacOfX   == IsRes /\ out.njev >= 1 /\ out.mgen = 0 /\ ~cfg.fd => out.jacOk
C05_Counters == IsRes => out.nfev = out.mnfev /\ out.njev = out.mnjev
C05_Held     == IsRes /\ out.kind = "result" => out.mfAt = out.mx /\ out.mgAt = out.mx
C05_SnapFunOfX == snap.kind = "cb" /\ snap.mgen = 0 => snap.funOk /\ (~cfg.fd => snap.jacOk)
C05_SnapCounters == snap.kind = "cb" => snap.nfev = snap.mnfev /\ snap.njev = snap.mnjev
C05_ResultIsX == IsRes => out.x = out.mx

\* C07: the callback state is what a run with maxiter = k returns
C07_SnapNit   == snap.kind = "cb" => snap.nit = snap.mnit + 1
C07_SnapX     == snap.kind = "cb" => snap.x = snap.mx
C07_SnapFrozen == snap.kind = "cb" => snap.frozen
C07_SnapPairs == snap.kind = "cb" => Len(snap.prov) = Len(snap.mmem) - 1

\* C10 / C18: memory discipline and provenance of the correction pairs
C10_Bounded == Len(mem) <= cfg.maxcor + 1
C18_Count   == IsRes => Len(out.prov) <= cfg.maxcor
\* every pair is the bit-exact difference of two consecutive retained iterates and of the gradients there
ProvOK(r) == /\ r.prov = Pairs(r.mmem)
             /\ \A i \in DOMAIN r.yOk : r.yOk[i] /\ r.exact[i]
\* C13/C18: a result or callback state that carries pairs carries a sequence that passed the curvature filter after the
\* last redefinition of the objective (fixes ad0fb3f, 645f7b7)
\* C13 (identity update functions are neutral) / C04: a run that ends in the stop tests of an iteration with the target met
\* reports the target, whether or not an update function is present
C13_TargetFirst == IsRes /\ out.kind = "result" /\ out.msg = "FTOL" => ~out.leT
C13_ReturnFiltered == IsRes /\ out.kind = "result" /\ Len(out.mmem) >= 2 => out.mfilt
C13_SnapFiltered == snap.kind = "cb" /\ Len(snap.mmem) >= 2 => snap.mfilt
C18_Provenance == IsRes /\ out.kind = "result" /\ out.mgen = 0 /\ chain = 0 /\ ~cfg.ck => ProvOK(out)
C18_SnapProvenance == snap.kind = "cb" /\ snap.mgen = 0 /\ chain = 0 /\ ~cfg.ck => ProvOK(snap)
\* after a restart the pairs formed since the restart are exact; the inherited ones are, at least up
\* to rounding, differences of iterates the chain visited, in chronological order (b of pair i = a of pair i+1)
ProvRestartOK(r) == /\ \A i \in DOMAIN r.prov : r.prov[i][1] # 0 /\ r.yAp[i]
                    /\ \A i \in 1..(Len(r.prov) - 1) : r.prov[i][2] = r.prov[i + 1][1]
C18_ProvenanceRestart == IsRes /\ out.kind = "result" /\ out.mgen = 0 /\ (chain > 0 \/ cfg.ck) => ProvRestartOK(out)
C18_InheritedExact == IsRes /\ out.kind = "result" /\ out.mgen = 0 /\ (chain > 0 \/ cfg.ck) =>
                         \A i \in DOMAIN out.exact : out.exact[i] /\ out.yOk[i]
C18_Curvature == (IsRes => out.syPos) /\ (snap.kind = "cb" => snap.syPos)

\* C17: the scaler is invoked exactly once
C17_ScalerOnce == (IsRes /\ out.kind = "result" /\ cfg.scaler => out.mcalls.scaler = 1)
                  /\ calls.scaler <= 1

\* C20: a failure of a user callable propagates unchanged
C20_Propagates == out.kind = "raised" => out.same
C20_NoResultAfterFault == fault # "none" => out.kind \in {"none", "raised"}

InvTable == <<
  <<"C04_Documented", C04_Documented>>, <<"C04_TruthPGTOL", C04_TruthPGTOL>>,
  <<"C04_TruthTARGET", C04_TruthTARGET>>, <<"C04_TruthMAXITER", C04_TruthMAXITER>>,
  <<"C04_TruthMAXFUN", C04_TruthMAXFUN>>, <<"C04_TruthCALLBACK", C04_TruthCALLBACK>>,
  <<"C04_Success", C04_Success>>, <<"C04_BudgetNit", C04_BudgetNit>>,
  <<"C04_BudgetNfev", C04_BudgetNfev>>, <<"C04_StopOnce", C04_StopOnce>>,
  <<"C04_StopAtMostOnce", C04_StopAtMostOnce>>,
  <<"C03_Monotone", C03_Monotone>>, <<"C03_ResultNotWorse", C03_ResultNotWorse>>,
  <<"C03_SnapNotWorse", C03_SnapNotWorse>>,
  <<"C05_FunOfX", C05_FunOfX>>, <<"C05_JacOfX", C05_JacOfX>>, <<"C05_Counters", C05_Counters>>,
  <<"C05_Held", C05_Held>>, <<"C05_SnapFunOfX", C05_SnapFunOfX>>,
  <<"C05_SnapCounters", C05_SnapCounters>>, <<"C05_ResultIsX", C05_ResultIsX>>,
  <<"C07_SnapNit", C07_SnapNit>>, <<"C07_SnapX", C07_SnapX>>, <<"C07_SnapFrozen", C07_SnapFrozen>>,
  <<"C07_SnapPairs", C07_SnapPairs>>,
  <<"C13_TargetFirst", C13_TargetFirst>>, <<"C13_ReturnFiltered", C13_ReturnFiltered>>, <<"C13_SnapFiltered", C13_SnapFiltered>>,
  <<"C10_Bounded", C10_Bounded>>, <<"C18_Count", C18_Count>>, <<"C18_Provenance", C18_Provenance>>,
  <<"C18_SnapProvenance", C18_SnapProvenance>>, <<"C18_Curvature", C18_Curvature>>,
  <<"C18_ProvenanceRestart", C18_ProvenanceRestart>>, <<"C18_InheritedExact", C18_InheritedExact>>,
  <<"C17_ScalerOnce", C17_ScalerOnce>>,
  <<"C20_Propagates", C20_Propagates>>, <<"C20_NoResultAfterFault", C20_NoResultAfterFault>> >>

Violated == {InvTable[i][1] : i \in {j \in DOMAIN InvTable : ~InvTable[j][2]}}
NoViolation == Violated = {}
=============================================================================
