SPECIFICATION Spec
CONSTANTS
  KA = 6
  KB = 6
  Mode = "threads"
INVARIANT Isolation
INVARIANT SharedUnchanged
INVARIANT Emit
