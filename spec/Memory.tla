-------------------------------- MODULE Memory --------------------------------
(***************************************************************************)
(* The curvature memory (bfgsmats.py:179-429, main.py:677-748) over exact  *)
(* integer vectors, so that sums and differences are exact both in TLC and *)
(* in IEEE doubles.                                                        *)
(*   X, G      the deques of points and gradients, oldest first            *)
(*   Cand      a candidate update: accepted iff s.y > eps*y.y (with        *)
(*             integer entries and eps = 2.2e-16 exactly s.y > 0), the     *)
(*             oldest entry is evicted when more than maxcor+1 are held    *)
(*   Reset     a failed line search keeps only the newest entry            *)
(*   Rewrite   the update function replaces the stored gradients, the      *)
(*             filter keeps the newest point and, going back in time, the  *)
(*             points that satisfy the curvature condition with the oldest *)
(*             point kept so far                                           *)
(*   Externalise / Restore   sk = diff X, yk = diff G and back             *)
(* Every reachable state is emitted as one JSON line (history + expected   *)
(* deques, matrix, externalised pairs, restored deques, filtered deques);  *)
(* the harness replays each history into the real routines.                *)
(***************************************************************************)
EXTENDS BFGS, TLC, Json, SequencesExt

CONSTANTS N, MaxCors, MaxHist, AlphaSel, MatrixPairs

VSubI(a, b) == [i \in 1..Len(a) |-> a[i] - b[i]]
DotI(a, b) == LET RECURSIVE S(_) S(k) == IF k = 0 THEN 0 ELSE S(k - 1) + a[k] * b[k] IN S(Len(a))

\* candidate alphabet: <<x, g>> integer vectors (zero steps, negative and zero curvature included)
Alphabet ==
  IF N = 1 THEN { <<<<x>>, <<g>>>> : x \in 0..2, g \in -1..2 }
  ELSE IF AlphaSel = "a" THEN
       { <<<<0, 0>>, <<0, 0>>>>, <<<<1, 0>>, <<2, 1>>>>, <<<<1, 1>>, <<3, 2>>>>, <<<<2, 1>>, <<3, 3>>>>,
         <<<<1, 0>>, <<-1, 0>>>>, <<<<0, 1>>, <<1, 2>>>>, <<<<2, 2>>, <<4, 3>>>>, <<<<1, 1>>, <<0, 0>>>> }
  ELSE { <<<<0, 0>>, <<1, -1>>>>, <<<<1, 2>>, <<2, 1>>>>, <<<<2, 0>>, <<2, -2>>>>, <<<<0, 1>>, <<0, 1>>>>,
         <<<<2, 2>>, <<3, 1>>>>, <<<<1, 1>>, <<1, 0>>>>, <<<<0, 0>>, <<1, -1>>>> }

VARIABLES X, G, maxcor, hist
vars == <<X, G, maxcor, hist>>

Init == /\ maxcor \in MaxCors
        /\ \E a \in Alphabet : X = <<a[1]>> /\ G = <<a[2]>> /\ hist = <<[op |-> "init", x |-> a[1], g |-> a[2]]>>

CurvOK(xo, go, xn, gn) == DotI(VSubI(xn, xo), VSubI(gn, go)) > 0
LastN(s, k) == IF Len(s) <= k THEN s ELSE SubSeq(s, Len(s) - k + 1, Len(s))

Cand(a) ==
  /\ Len(hist) < MaxHist
  /\ LET acc == CurvOK(X[Len(X)], G[Len(G)], a[1], a[2]) IN
       /\ X' = IF acc THEN LastN(Append(X, a[1]), maxcor + 1) ELSE X
       /\ G' = IF acc THEN LastN(Append(G, a[2]), maxcor + 1) ELSE G
       /\ hist' = Append(hist, [op |-> "cand", x |-> a[1], g |-> a[2]])
  /\ UNCHANGED maxcor
Reset ==
  /\ Len(hist) < MaxHist /\ Len(X) > 1
  /\ X' = <<X[Len(X)]>> /\ G' = <<G[Len(G)]>>
  /\ hist' = Append(hist, [op |-> "reset", x |-> X[Len(X)], g |-> G[Len(G)]])
  /\ UNCHANGED maxcor
Next == (\E a \in Alphabet : Cand(a)) \/ Reset
Spec == Init /\ [][Next]_vars

\* ---- derived objects ----
PairsOf(Xs, Gs) == [k \in 1..(Len(Xs) - 1) |-> [s |-> VInt(VSubI(Xs[k + 1], Xs[k])), y |-> VInt(VSubI(Gs[k + 1], Gs[k]))]]
Sk(Xs) == [k \in 1..(Len(Xs) - 1) |-> VSubI(Xs[k + 1], Xs[k])]
\* Restore (main.py:684-748, as repaired): the points before the newest one, chronological, at most mc + 1
RECURSIVE Back(_, _, _)
Back(last, diffs, k) ==   \* points reconstructed from the newest backwards: last - diffs[m] - ... - diffs[k]
  IF k > Len(diffs) THEN <<>>
  ELSE LET RECURSIVE Sub(_, _)
           Sub(v, j) == IF j > Len(diffs) THEN v ELSE Sub(VSubI(v, diffs[j]), j + 1)
       IN <<Sub(last, k)>> \o Back(last, diffs, k + 1)
Restore(last, diffs, mc) == LastN(Back(last, diffs, 1), mc + 1)

\* the filter (bfgsmats.py:388-429): greedy from the newest entry backwards
RECURSIVE Keep(_, _, _, _)
Keep(Xs, Gs, k, kept) ==   \* kept: sequence of indices, oldest first
  IF k = 0 THEN kept
  ELSE IF CurvOK(Xs[k], Gs[k], Xs[kept[1]], Gs[kept[1]]) THEN Keep(Xs, Gs, k - 1, <<k>> \o kept)
  ELSE Keep(Xs, Gs, k - 1, kept)
FilterIdx(Xs, Gs) == Keep(Xs, Gs, Len(Xs) - 1, <<Len(Xs)>>)

\* ---- invariants (C10, C18, C06 restore arithmetic, C13 filter laws) ----
C10_Bounded == Len(X) <= maxcor + 1 /\ Len(G) = Len(X)
C10_Curvature == \A k \in 1..(Len(X) - 1) : CurvOK(X[k], G[k], X[k + 1], G[k + 1])
\* 32-bit rationals: the exact matrix algebra is evaluated on memories with small curvature numbers
Tame == \A k \in 1..(Len(X) - 1) :
          LET s == VSubI(X[k + 1], X[k]) y == VSubI(G[k + 1], G[k]) IN DotI(s, y) <= 4 /\ DotI(y, y) <= 10
MatrixClaims ==
  Len(X) - 1 \in 1..MatrixPairs /\ Tame =>
    \A prs \in {PairsOf(X, G)} : \A B \in {Dense(N, prs)} :
       /\ IsSPD(B)                                         \* C10_SPD
       /\ Compact(N, prs) = B                              \* C10_CompactIsDense
       /\ MVec(B, prs[Len(prs)].s) = prs[Len(prs)].y       \* C10_Secant
C06_RestoreIsLastN ==
  \A mc \in MaxCors :
     /\ Restore(X[Len(X)], Sk(X), mc) = LastN(SubSeq(X, 1, Len(X) - 1), mc + 1)
     /\ Restore(G[Len(G)], Sk(G), mc) = LastN(SubSeq(G, 1, Len(G) - 1), mc + 1)
C13_FilterLaws ==
  \A a \in Alphabet :       \* rewrite every stored gradient by adding a[2] * (position parity): breaks curvature for subsets
    LET Gr == [k \in 1..Len(G) |-> IF k % 2 = 0 THEN VSubI(G[k], a[2]) ELSE G[k]]
        idx == FilterIdx(X, Gr)
    IN /\ idx[Len(idx)] = Len(X)                                            \* newest retained
       /\ \A j \in 1..(Len(idx) - 1) : CurvOK(X[idx[j]], Gr[idx[j]], X[idx[j + 1]], Gr[idx[j + 1]])
       /\ \A j \in 1..(Len(idx) - 1) : idx[j] < idx[j + 1]                  \* chronological subsequence

Expected ==
  LET prs == PairsOf(X, G)
      small == Len(prs) \in 1..MatrixPairs /\ Tame
  IN [n |-> N, maxcor |-> maxcor, hist |-> hist, X |-> X, G |-> G,
      sk |-> Sk(X), yk |-> Sk(G),
      B |-> IF small THEN Dense(N, prs) ELSE <<>>,
      hdiag |-> IF small THEN HInvDiag(N, prs) ELSE <<>>,
      restore |-> [mc \in MaxCors |-> Restore(X[Len(X)], Sk(X), mc)],
      restoreG |-> [mc \in MaxCors |-> Restore(G[Len(G)], Sk(G), mc)],
      filt |-> [a \in 1..Len(SetToSeq(Alphabet)) |->
                 LET av == SetToSeq(Alphabet)[a]
                     Gr == [k \in 1..Len(G) |-> IF k % 2 = 0 THEN VSubI(G[k], av[2]) ELSE G[k]]
                 IN [g |-> Gr, idx |-> FilterIdx(X, Gr)]]]
Dump == PrintT(ToJson(Expected))
=============================================================================
