------------------------------ MODULE MCKernels ------------------------------
(***************************************************************************)
(* Exhaustive lattice for the kernels (C08, C09): every structural pattern *)
(* of n <= N variables - box kind x position x gradient sign/size - and a  *)
(* menu of positive-curvature memories.  TLC (i) checks the design claims  *)
(* on the definitions for every lattice input and (ii) emits, per input,   *)
(* the exact expected results as one JSON line; the harness replays every  *)
(* emitted input into the real kernels (spec -> code).                     *)
(***************************************************************************)
EXTENDS Subspace, TLC, Json, SequencesExt

CONSTANTS N,        \* dimension
          Mems,     \* subset of memory-menu ids explored in this run
          ShardN, ShardK,  \* this run explores the inputs whose first pattern has index = ShardK mod ShardN
          KindNames, XSet, GSel   \* sub-lattice: box kinds, positions, gradient values ("full": -2..2, "nz": no zero)

\* per-variable patterns: <<kind, lo, hi>>
Kinds == { [k |-> "free", lo |-> Inf, hi |-> Inf], [k |-> "lo", lo |-> Fin(R(0)), hi |-> Inf],
           [k |-> "hi", lo |-> Inf, hi |-> Fin(R(3))], [k |-> "box", lo |-> Fin(R(0)), hi |-> Fin(R(3))],
           [k |-> "fix", lo |-> Fin(R(2)), hi |-> Fin(R(2))] }
XOf(kd) == IF kd.k = "fix" THEN {2} ELSE XSet
GVals == IF GSel = "full" THEN -2..2 ELSE {-2, -1, 1, 2}
VarPatterns == UNION { { [kd |-> kd, x |-> xv, g |-> gv] : xv \in XOf(kd), gv \in GVals }
                       : kd \in {k \in Kinds : k.k \in KindNames} }

P2(s, y) == [s |-> VInt(s), y |-> VInt(y)]
Menu(n, m) ==
  IF m = 0 THEN <<>>
  ELSE IF n = 1 THEN (CASE m = 1 -> <<P2(<<1>>, <<2>>)>>
                        [] m = 2 -> <<P2(<<2>>, <<1>>)>>
                        [] m = 3 -> <<P2(<<1>>, <<2>>), P2(<<1>>, <<3>>)>>
                        [] OTHER -> <<P2(<<-1>>, <<-1>>)>>)
  ELSE IF n = 2 THEN (CASE m = 1 -> <<P2(<<1, 0>>, <<2, 1>>)>>
                        [] m = 2 -> <<P2(<<1, 1>>, <<1, 2>>)>>
                        [] m = 3 -> <<P2(<<1, 0>>, <<2, 1>>), P2(<<0, 1>>, <<1, 1>>)>>
                        [] OTHER -> <<P2(<<1, -1>>, <<2, -1>>)>>)
  \* n = 3: pairs chosen so that the BFGS matrix has small denominators (32-bit arithmetic)
  ELSE (CASE m = 1 -> <<P2(<<1, 0, 0>>, <<2, 1, 1>>)>>
          [] m = 2 -> <<P2(<<0, 1, 0>>, <<1, 2, -1>>)>>
          [] m = 3 -> <<P2(<<1, 0, 0>>, <<2, 1, 0>>), P2(<<0, 1, 0>>, <<1, 2, 0>>)>>
          [] OTHER -> <<P2(<<0, 0, 1>>, <<-1, 1, 2>>)>>)

\* constant-level tables (evaluated once by TLC)
MenuOf == [m \in Mems |-> Menu(N, m)]
DenseOf == [m \in Mems |-> Dense(N, Menu(N, m))]
PatSeq == SetToSeq(VarPatterns)
PatIdx(p) == CHOOSE i \in 1..Len(PatSeq) : PatSeq[i] = p
\* shards are balanced over the patterns of the first TWO variables (n >= 2)
InShard(pt) == (PatIdx(pt[1]) * Len(PatSeq) + (IF N >= 2 THEN PatIdx(pt[2]) ELSE 0)) % ShardN = ShardK

VARIABLES pat, mem, done, bad
vars == <<pat, mem, done, bad>>

Prob == [n |-> N,
         x |-> [i \in 1..N |-> R(pat[i].x)], g |-> [i \in 1..N |-> R(pat[i].g)],
         lo |-> [i \in 1..N |-> pat[i].kd.lo], hi |-> [i \in 1..N |-> pat[i].kd.hi],
         B |-> DenseOf[mem]]

Init == /\ pat \in [1..N -> VarPatterns]
        /\ InShard(pat)
        /\ mem \in Mems
        /\ done = FALSE /\ bad = {}
        /\ ~ProjGradZero(Prob)

EB(b) == IF b.fin THEN b.v ELSE <<0, 0>>      \* <<0,0>> encodes "no bound"
\* Strict binding: TLC re-evaluates state-level definitions at every reference, so each
\* intermediate result is bound once by a bounded quantifier (set comprehension).
ExpectedOf(P, prs, a, xc, xb) ==
  LET pin == [i \in 1..N |-> IF ~Bp(P, i).fin THEN 0
                             ELSE IF RLt(Bp(P, i).v, a.t) THEN 1
                             ELSE IF Bp(P, i).v = a.t THEN 2 ELSE 0]
      cv == IF prs = <<>> THEN <<>> ELSE MVec(MT(WMat(N, prs)), VSub(xc, P.x))
  IN [n |-> N, mem |-> mem,
      x |-> [i \in 1..N |-> pat[i].x], g |-> [i \in 1..N |-> pat[i].g],
      lo |-> [i \in 1..N |-> EB(P.lo[i])], hi |-> [i \in 1..N |-> EB(P.hi[i])],
      pairs |-> [k \in 1..Len(prs) |-> [s |-> prs[k].s, y |-> prs[k].y]],
      theta |-> IF prs = <<>> THEN One ELSE Theta(prs),
      B |-> P.B, t |-> a.t, xcp |-> xc, pin |-> pin, c |-> cv,
      knife |-> SetToSeq({Path(P, k) : k \in a.knife}),
      seq |-> SetToSeq(SeqPoints(P) \ {xc}),
      free |-> SeqOfSet(FreeAt(P, xc)), xbar |-> xb,
      mxc |-> Model(P, xc), mxbar |-> Model(P, xb)]
Expected ==
  Pick({ Pick({ Pick({ Pick({ ExpectedOf(P, MenuOf[mem], a, xc, xb) : xb \in {XBar(P, xc)} })
                       : xc \in {Path(P, a.t)} })
                : a \in {Alg(P)} })
         : P \in {Prob} })

\* design claims on the definitions, evaluated for every lattice input inside the (parallel)
\* Emit step; `bad` collects the names of the claims that fail, the invariant demands none.
Flag(name, ok) == IF ok THEN {} ELSE {name}
Claims ==
  Pick({ Pick({ Pick({ Pick({
      Flag("C08_AlgIsFirstLocalMin", Alg(P).t = t)
      \cup Flag("C08_Feasible", InBox(P, xc))
      \cup Flag("C08_ModelDecrease", RLt(Model(P, xc), Zero))
      \cup Flag("C08_OnPath", \A i \in 1..P.n : \/ xc[i] = RSub(P.x[i], RMul(t, P.g[i]))
                                                \/ (P.lo[i].fin /\ xc[i] = P.lo[i].v)
                                                \/ (P.hi[i].fin /\ xc[i] = P.hi[i].v))
      \cup Flag("C10_SPD", IsSPD(P.B))
      \cup Flag("C10_Secant", LET prs == MenuOf[mem] IN
                                prs # <<>> => MVec(P.B, prs[Len(prs)].s) = prs[Len(prs)].y)
      \cup Flag("C09_ActiveFixed", \A i \in (1..P.n) \ FreeAt(P, xc) : xb[i] = xc[i])
      \cup Flag("C09_Feasible", InBox(P, xb))
      \cup Flag("C09_ModelNonIncrease", RLe(Model(P, xb), Model(P, xc)))
      \cup Flag("C09_Descent", RSign(Dot(P.g, VSub(xb, P.x))) = -1)
      \cup Flag("C09_AlphaMaximal", C09_AlphaMaximal(P, xc, xb))
    : xb \in {XBar(P, xc)} }) : xc \in {Path(P, t)} }) : t \in {GCPt(P)} }) : P \in {Prob} })

Emit == /\ ~done /\ done' = TRUE /\ UNCHANGED <<pat, mem>>
        /\ bad' = Claims
        /\ PrintT(ToJson(Expected))
Next == Emit
Spec == Init /\ [][Next]_vars

DesignClaimsHold == bad = {}
\* the compact representation equals the recursion (depends on the menu only: checked once)
ASSUME \A m \in Mems : Compact(N, MenuOf[m]) = DenseOf[m]
=============================================================================
