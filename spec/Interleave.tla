------------------------------ MODULE Interleave ------------------------------
(***************************************************************************)
(* Two calls of minimize_lbfgsb reduced to their yield points (the calls   *)
(* of the user's objective / gradient, the only places where control can   *)
(* pass to other code in a cooperative schedule) plus the module-level     *)
(* cells that exist in the code and could carry state from one call to     *)
(* another: the class attributes of InternalState (read when an instance   *)
(* is created), the mutable default arguments of line_search (isave,       *)
(* dsave), the logger, NumPy's error state.                                *)
(* Discipline of the design: every call works on per-call state only; the  *)
(* shared cells are read, never written, after import.  Then the result of *)
(* a call is a function of its arguments only, whatever the schedule.      *)
(* Modes: "threads" (all interleavings of the first KA / KB yield points), *)
(* "nested" (B runs to completion inside A's j-th yield, all j).           *)
(* Every complete schedule is emitted (PrintT) and replayed on the real    *)
(* code with a hand-off scheduler; the harness also digests the shared     *)
(* cells at every yield.                                                   *)
(***************************************************************************)
EXTENDS Integers, Sequences, TLC

CONSTANTS KA, KB, Mode

VARIABLES ia, ib, shared, priv, sched
vars == <<ia, ib, shared, priv, sched>>

Cells == {"InternalState.attrs", "line_search.defaults", "logger", "np.errstate"}

Init == ia = 0 /\ ib = 0 /\ shared = [c \in Cells |-> 0] /\ priv = [p \in {"A", "B"} |-> 0] /\ sched = <<>>

\* a yield point of run p: it reads the shared cells and advances its private state
StepA == /\ ia < KA /\ ia' = ia + 1 /\ priv' = [priv EXCEPT !.A = @ + 1 + shared["line_search.defaults"]]
         /\ sched' = Append(sched, "A") /\ UNCHANGED <<ib, shared>>
StepB == /\ ib < KB /\ ib' = ib + 1 /\ priv' = [priv EXCEPT !.B = @ + 1 + shared["line_search.defaults"]]
         /\ sched' = Append(sched, "B") /\ UNCHANGED <<ia, shared>>
\* nested mode: once B has started (inside one of A's yields) it runs to completion
NestedOK == Mode = "nested" => (ib \in {0, KB} \/ (sched # <<>> /\ sched[Len(sched)] = "B"))
Next == \/ StepA /\ (Mode = "nested" => ib \in {0, KB})
        \/ StepB /\ (Mode = "nested" => (ia >= 1 /\ ia < KA + 1))
Spec == Init /\ [][Next]_vars

Done == ia = KA /\ ib = KB
\* isolation: the private outcome of each run is the one it has when run alone
Isolation == Done => priv.A = KA /\ priv.B = KB
SharedUnchanged == \A c \in Cells : shared[c] = 0
Emit == Done => PrintT(<<"SCHED", sched>>)
=============================================================================
