-------------------------------- MODULE LinAlg --------------------------------
(***************************************************************************)
(* Small dense linear algebra over Rat: vectors are functions 1..n -> Rat, *)
(* matrices functions 1..n -> (1..m -> Rat).                               *)
(***************************************************************************)
EXTENDS Rat, Sequences, FiniteSets

RECURSIVE SumTo(_, _)
SumTo(f, k) == IF k = 0 THEN Zero ELSE RAdd(SumTo(f, k - 1), f[k])
Sum(f0) == Pick({ SumTo(f, Len(f)) : f \in {f0} })            \* f a sequence of rationals

VDim(v) == Len(v)
VZero(n) == [i \in 1..n |-> Zero]
VInt(v) == [i \in 1..Len(v) |-> R(v[i])]          \* integer vector -> rational vector
VAdd(a, b) == [i \in 1..Len(a) |-> RAdd(a[i], b[i])]
VSub(a, b) == [i \in 1..Len(a) |-> RSub(a[i], b[i])]
VScale(c, a) == [i \in 1..Len(a) |-> RMul(c, a[i])]
Dot(a, b) == Sum([i \in 1..Len(a) |-> RMul(a[i], b[i])])

MRows(A) == Len(A)
MCols(A) == Len(A[1])
MIdent(n, c) == [i \in 1..n |-> [j \in 1..n |-> IF i = j THEN c ELSE Zero]]
MVec(A, v) == [i \in 1..Len(A) |-> Dot(A[i], v)]
MAdd(A, B) == [i \in 1..Len(A) |-> [j \in 1..Len(A[1]) |-> RAdd(A[i][j], B[i][j])]]
MSub(A, B) == [i \in 1..Len(A) |-> [j \in 1..Len(A[1]) |-> RSub(A[i][j], B[i][j])]]
MScale(c, A) == [i \in 1..Len(A) |-> [j \in 1..Len(A[1]) |-> RMul(c, A[i][j])]]
Outer(a, b) == [i \in 1..Len(a) |-> [j \in 1..Len(b) |-> RMul(a[i], b[j])]]
MT(A) == [j \in 1..Len(A[1]) |-> [i \in 1..Len(A) |-> A[i][j]]]
MMul(A, B) == [i \in 1..Len(A) |-> [j \in 1..Len(B[1]) |->
                 Sum([k \in 1..Len(B) |-> RMul(A[i][k], B[k][j])])]]
Quad(A, v) == Pick({ Dot(v, Av) : Av \in {MVec(A, v)} })
IsSym(A) == \A i \in 1..Len(A) : \A j \in 1..Len(A) : A[i][j] = A[j][i]

\* sub-matrix / sub-vector on an increasing sequence of indices
SubV(v, idx) == [k \in 1..Len(idx) |-> v[idx[k]]]
SubM(A, idx) == [k \in 1..Len(idx) |-> [m \in 1..Len(idx) |-> A[idx[k]][idx[m]]]]

\* determinant by cofactor expansion (n <= 3 in practice)
Minor(A, r, c) == LET n == Len(A)
                      ri == [k \in 1..(n - 1) |-> IF k < r THEN k ELSE k + 1]
                      ci == [k \in 1..(n - 1) |-> IF k < c THEN k ELSE k + 1]
                  IN [i \in 1..(n - 1) |-> [j \in 1..(n - 1) |-> A[ri[i]][ci[j]]]]
RECURSIVE Det(_)
Det(A) == IF Len(A) = 0 THEN One
          ELSE IF Len(A) = 1 THEN A[1][1]
          ELSE Sum([j \in 1..Len(A) |->
                 RMul(IF j % 2 = 1 THEN A[1][j] ELSE RNeg(A[1][j]), Det(Minor(A, 1, j)))])
Leading(A, k) == [i \in 1..k |-> [j \in 1..k |-> A[i][j]]]
IsSPD(A) == IsSym(A) /\ \A k \in 1..Len(A) : RSign(Det(Leading(A, k))) = 1

\* Strict binding.  TLC re-evaluates an argument expression at every reference inside the
\* operator body; binding an intermediate result with a bounded quantifier evaluates it once.

\* Gauss-Jordan elimination on an augmented matrix (n rows), exact, with row pivoting.
PivotRow(A, k, n) == CHOOSE p \in k..n : A[p][k] # Zero /\ \A q \in k..(p - 1) : A[q][k] = Zero
ElimCol(A, k, n) ==
  LET p == PivotRow(A, k, n)
      sw == [i \in 1..n |-> IF i = k THEN A[p] ELSE IF i = p THEN A[k] ELSE A[i]]
  IN Pick({ Pick({ [i \in 1..n |-> IF i = k THEN prow
                                    ELSE LET f == S[i][k] IN
                                         IF f = Zero THEN S[i]
                                         ELSE [j \in 1..Len(S[i]) |-> RSub(S[i][j], RMul(f, prow[j]))]]
                  : prow \in {[j \in 1..Len(S[k]) |-> RDiv(S[k][j], S[k][k])]} })
           : S \in {sw} })
RECURSIVE GJ(_, _, _)
GJ(A, k, n) == IF k > n THEN A ELSE Pick({ GJ(A2, k + 1, n) : A2 \in {ElimCol(A, k, n)} })
\* solve A y = b (A non-singular)
Solve(A, b) == LET n == Len(A)
                   aug == [i \in 1..n |-> [j \in 1..(n + 1) |-> IF j <= n THEN A[i][j] ELSE b[i]]]
               IN Pick({ [i \in 1..n |-> R2[i][n + 1]] : R2 \in {GJ(aug, 1, n)} })
MInverse(A) == LET n == Len(A)
                   aug == [i \in 1..n |-> [j \in 1..(2 * n) |->
                             IF j <= n THEN A[i][j] ELSE IF j - n = i THEN One ELSE Zero]]
               IN Pick({ [i \in 1..n |-> [j \in 1..n |-> R2[i][n + j]]] : R2 \in {GJ(aug, 1, n)} })
=============================================================================
