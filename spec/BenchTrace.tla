------------------------------ MODULE BenchTrace ------------------------------
(***************************************************************************)
(* C19, all eight pairs (incl. the transcendental ones): per sampled point *)
(* and coordinate the harness logs the function-value differences          *)
(* D_k = f(x + k h e_i) - f(x - k h e_i), k = 1..3, h = 2^-7, and the      *)
(* exported gradient component G as fixed-point integers d1, d2, d3, g     *)
(* (scale S chosen per sample so that products stay below 2^31).  The      *)
(* 6th-order central difference is (45 D1 - 9 D2 + D3)/(60 h); the guard   *)
(*     |128 (45 d1 - 9 d2 + d3) - 60 g|  <=  60 * 1e-3 * max(S, |g|)        *)
(* (plus the quantisation slack) is evaluated in integer arithmetic.       *)
(***************************************************************************)
EXTENDS Integers, Sequences, FiniteSets, TLC, Json, IOUtils

Traces == JsonDeserialize(IOEnv.TRACE_FILE)
VARIABLES tid, l, viol
vars == <<tid, l, viol>>
Tr == Traces[tid]
Ev == Tr[l]
Abs(a) == IF a < 0 THEN -a ELSE a
Max(a, b) == IF a >= b THEN a ELSE b
Slack == 64     \* quantisation of d1..d3 and g: (128*55 + 60)/2 / 60 < 64

\* e.u: the size of the gradient at the sampled point (max-norm, in the same fixed-point unit): the stencil and the exported
\* gradient agree to 1e-4 of it (a sixth-order stencil with h = 2^-7 is good to ~1e-9 of it on these functions)
Ok(e) == (Abs(128 * (45 * e.d1 - 9 * e.d2 + e.d3) - 60 * e.g) \div 60) <= (Max(e.u, Abs(e.g)) \div 10000) + Slack
Init == tid \in 1..Len(Traces) /\ l = 1 /\ viol = {}
Sample == /\ l <= Len(Tr)
          /\ viol' = IF Ok(Ev) /\ Ev.shapeOk /\ Ev.scalarOk THEN viol
                     ELSE viol \cup {IF ~Ok(Ev) THEN "C19_GradientIsNotDerivative@" \o ToString(l)
                                     ELSE "C19_ShapeOrScalar@" \o ToString(l)}
          /\ l' = l + 1 /\ UNCHANGED tid
Finish == l = Len(Tr) + 1 /\ l' = l + 1 /\ PrintT(<<"ACC", tid, viol>>) /\ UNCHANGED <<tid, viol>>
Spec == Init /\ [][Sample \/ Finish]_vars
=============================================================================
