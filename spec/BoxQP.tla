--------------------------------- MODULE BoxQP ---------------------------------
(***************************************************************************)
(* Exact minimiser of an integer box-constrained strictly convex QP        *)
(*        min 1/2 x'Ax + b'x   s.t.  lo <= x <= hi                         *)
(* by enumeration of the 3^n active sets (n <= 3) and the KKT conditions:  *)
(* the end-to-end oracle for C01 / C12 on lattice problems.  TLC           *)
(* enumerates matrix menu x linear terms x boxes x feasible lattice starts *)
(* (interior, faces, vertices, incl. starts on a bound with the gradient   *)
(* pushing outward) and emits problem + exact solution as one JSON line.   *)
(***************************************************************************)
EXTENDS Cauchy, TLC, Json, SequencesExt

CONSTANTS N, BVals, Neg, KindNames, XSet, ShardN, ShardK

AMenu == IF N = 1 THEN {<<<<1>>>>, <<<<3>>>>}
         ELSE IF N = 2 THEN {<<<<2, 1>>, <<1, 2>>>>, <<<<1, 0>>, <<0, 4>>>>, <<<<3, -2>>, <<-2, 3>>>>}
         ELSE {<<<<2, 1, 0>>, <<1, 2, 1>>, <<0, 1, 2>>>>, <<<<3, -1, 1>>, <<-1, 2, 0>>, <<1, 0, 2>>>>}
BAll == IF Neg THEN BVals \cup {-v : v \in BVals} ELSE BVals
Kinds == { [k |-> "free", lo |-> Inf, hi |-> Inf], [k |-> "lo", lo |-> Fin(R(0)), hi |-> Inf],
           [k |-> "hi", lo |-> Inf, hi |-> Fin(R(3))], [k |-> "box", lo |-> Fin(R(0)), hi |-> Fin(R(3))],
           [k |-> "fix", lo |-> Fin(R(2)), hi |-> Fin(R(2))] }
XOf(kd) == IF kd.k = "fix" THEN {2} ELSE XSet
VarPatterns == UNION { { [kd |-> kd, x |-> xv] : xv \in XOf(kd) } : kd \in {k \in Kinds : k.k \in KindNames} }
PatSeq == SetToSeq(VarPatterns)
PatIdx(p) == CHOOSE i \in 1..Len(PatSeq) : PatSeq[i] = p
\* shards are balanced over the patterns of the first TWO variables (n >= 2)
InShard(pt) == (PatIdx(pt[1]) * Len(PatSeq) + (IF N >= 2 THEN PatIdx(pt[2]) ELSE 0)) % ShardN = ShardK

VARIABLES A, b, pat, done
vars == <<A, b, pat, done>>
Init == /\ A \in AMenu /\ b \in [1..N -> BAll] /\ pat \in [1..N -> VarPatterns] /\ InShard(pat)
        /\ done = FALSE

AR == [i \in 1..N |-> [j \in 1..N |-> R(A[i][j])]]
bR == [i \in 1..N |-> R(b[i])]
Lo(i) == pat[i].kd.lo
Hi(i) == pat[i].kd.hi
SeqOfSetB(S) == LET RECURSIVE F(_, _)
                    F(T, acc) == IF T = {} THEN acc
                                 ELSE LET m == CHOOSE a \in T : \A c \in T : a <= c IN F(T \ {m}, Append(acc, m))
                IN F(S, <<>>)
\* candidate for an active-set assignment act[i] in {"l", "u", "f"}
Cand(act) ==
  LET fr == SeqOfSetB({i \in 1..N : act[i] = "f"})
      fixedv == [i \in 1..N |-> IF act[i] = "l" THEN Lo(i).v ELSE IF act[i] = "u" THEN Hi(i).v ELSE Zero]
      rhs == [k \in 1..Len(fr) |-> RNeg(RAdd(bR[fr[k]], Dot(AR[fr[k]], fixedv)))]
      sol == IF fr = <<>> THEN <<>> ELSE Solve(SubM(AR, fr), rhs)
  IN [i \in 1..N |-> IF act[i] = "f" THEN sol[CHOOSE k \in 1..Len(fr) : fr[k] = i] ELSE fixedv[i]]
Acts == {act \in [1..N -> {"l", "u", "f"}] : \A i \in 1..N : (act[i] = "l" => Lo(i).fin) /\ (act[i] = "u" => Hi(i).fin)}
IsKKT(act, xs) ==
  \A g \in {VAdd(MVec(AR, xs), bR)} : \A i \in 1..N :
     /\ (Lo(i).fin => RLe(Lo(i).v, xs[i])) /\ (Hi(i).fin => RLe(xs[i], Hi(i).v))
     /\ (act[i] = "f" => g[i] = Zero)
     /\ (act[i] = "l" => RSign(g[i]) >= 0 \/ (Hi(i).fin /\ Hi(i).v = Lo(i).v))
     /\ (act[i] = "u" => RSign(g[i]) <= 0 \/ (Lo(i).fin /\ Hi(i).v = Lo(i).v))
Solutions == {xs \in {Cand(act) : act \in Acts} : \E act \in Acts : Cand(act) = xs /\ IsKKT(act, xs)}
XStar == CHOOSE xs \in Solutions : TRUE
QVal(xs) == RAdd(RMul(<<1, 2>>, Quad(AR, xs)), Dot(bR, xs))

Emit == /\ ~done /\ done' = TRUE /\ UNCHANGED <<A, b, pat>>
        /\ \A xs \in {XStar} :
             PrintT(ToJson([n |-> N, A |-> A, b |-> b,
                            lo |-> [i \in 1..N |-> IF Lo(i).fin THEN Lo(i).v ELSE <<0, 0>>],
                            hi |-> [i \in 1..N |-> IF Hi(i).fin THEN Hi(i).v ELSE <<0, 0>>],
                            x0 |-> [i \in 1..N |-> pat[i].x], xstar |-> xs, fstar |-> QVal(xs)]))
Spec == Init /\ [][Emit]_vars
\* design check: strict convexity => exactly one KKT point, and it is feasible
UniqueKKT == Cardinality(Solutions) = 1
=============================================================================
