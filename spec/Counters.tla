------------------------------- MODULE Counters -------------------------------
(***************************************************************************)
(* The counter fragment of Driver (nit, nfev and the per-iteration line-   *)
(* search budget min(maxls, maxfun - nfev)) for UNBOUNDED maxiter, maxfun, *)
(* maxls and arbitrary checkpoint counters: C04's budget clause            *)
(*     nit <= max(maxiter, nit0)   and   nfev <= max(maxfun, n0) + 1       *)
(* as an inductive invariant, discharged by Apalache (thorough tier):      *)
(*     Init => IndInv        and      IndInv /\ Next => IndInv'            *)
(* The +1 is the re-evaluation at the accepted point when it is not the    *)
(* last trial of a line search that used up its budget.                    *)
(***************************************************************************)
EXTENDS Integers

VARIABLES
  \* @type: Int;
  maxiter,
  \* @type: Int;
  maxfun,
  \* @type: Int;
  maxls,
  \* @type: Int;
  nit0,
  \* @type: Int;
  n0,
  \* @type: Int;
  nit,
  \* @type: Int;
  nfev,
  \* @type: Str;
  pc,
  \* @type: Int;
  lsn,
  \* @type: Int;
  budget

Max(a, b) == IF a >= b THEN a ELSE b
Min(a, b) == IF a <= b THEN a ELSE b

Init ==
  /\ maxiter \in Nat /\ maxfun \in Nat /\ maxfun >= 1 /\ maxls \in Nat /\ maxls >= 1
  /\ nit0 \in Nat /\ n0 \in Nat /\ n0 >= 1
  /\ nit = nit0 /\ nfev = n0 /\ pc = "guard" /\ lsn = 0 /\ budget = 0

\* main.py:492-497 (the other two conjuncts of the loop guard can only make the loop exit earlier)
GuardEnter == /\ pc = "guard" /\ nit < maxiter /\ nfev < maxfun
              /\ pc' = "ls" /\ budget' = Min(maxls, maxfun - nfev) /\ lsn' = 0
              /\ UNCHANGED <<maxiter, maxfun, maxls, nit0, n0, nit, nfev>>
GuardExit == /\ pc = "guard" /\ pc' = "done"
             /\ UNCHANGED <<maxiter, maxfun, maxls, nit0, n0, nit, nfev, lsn, budget>>
\* linesearch.py:268-305: one evaluation per trial, at most `budget` trials
Trial == /\ pc = "ls" /\ lsn < budget
         /\ nfev' = nfev + 1 /\ lsn' = lsn + 1
         /\ UNCHANGED <<maxiter, maxfun, maxls, nit0, n0, nit, pc, budget>>
LSStep == /\ pc = "ls" /\ lsn >= 1 /\ pc' = "acc"
          /\ UNCHANGED <<maxiter, maxfun, maxls, nit0, n0, nit, nfev, lsn, budget>>
LSNone == /\ pc = "ls" /\ pc' \in {"end", "done"}
          /\ UNCHANGED <<maxiter, maxfun, maxls, nit0, n0, nit, nfev, lsn, budget>>
\* main.py:571-575: re-evaluation at the accepted point unless it is the last trial
Accept == /\ pc = "acc"
          /\ \/ nfev' = nfev
             \/ lsn >= 2 /\ nfev' = nfev + 1
          /\ pc' \in {"end", "done"}
          /\ UNCHANGED <<maxiter, maxfun, maxls, nit0, n0, nit, lsn, budget>>
EndIter == /\ pc = "end" /\ nit' = nit + 1 /\ pc' = "guard"
           /\ UNCHANGED <<maxiter, maxfun, maxls, nit0, n0, nfev, lsn, budget>>
Next == GuardEnter \/ GuardExit \/ Trial \/ LSStep \/ LSNone \/ Accept \/ EndIter

C04_Budget == nit <= Max(maxiter, nit0) /\ nfev <= Max(maxfun, n0) + 1

IndInv ==
  /\ maxiter >= 0 /\ maxfun >= 1 /\ maxls >= 1 /\ nit0 >= 0 /\ n0 >= 1 /\ lsn >= 0 /\ budget >= 0
  /\ pc \in {"guard", "ls", "acc", "end", "done"}
  /\ nit >= nit0 /\ nfev >= n0
  /\ C04_Budget
  /\ (pc \in {"ls", "acc", "end"} => nit < maxiter)
  /\ (pc = "ls" => lsn <= budget /\ nfev + (budget - lsn) <= maxfun)
  /\ (pc = "acc" => nfev <= maxfun)
\* an arbitrary state satisfying the invariant (every variable is assigned first: Apalache)
IndInit ==
  /\ maxiter \in Int /\ maxfun \in Int /\ maxls \in Int /\ nit0 \in Int /\ n0 \in Int
  /\ nit \in Int /\ nfev \in Int /\ lsn \in Int /\ budget \in Int
  /\ pc \in {"guard", "ls", "acc", "end", "done"}
  /\ IndInv
=============================================================================
