SPECIFICATION Spec
