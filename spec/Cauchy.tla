-------------------------------- MODULE Cauchy --------------------------------
(***************************************************************************)
(* The generalized Cauchy point (Byrd, Lu, Nocedal 1995, section 4).       *)
(*                                                                         *)
(*  Definition (declarative): the first local minimiser t* >= 0 of         *)
(*      q(t) = g.(x(t)-x) + 1/2 (x(t)-x).B.(x(t)-x),  x(t) = P(x - t g),    *)
(*  written with one-sided derivatives of the piecewise quadratic.         *)
(*  Algorithm: the segment-by-segment search (cauchy.py:155-292), with     *)
(*  dense B; two variants: tied breakpoints treated together (correct) and *)
(*  one variable at a time as published (AlgSeq).                          *)
(*                                                                         *)
(* A problem is a record [n, x, g, lo, hi, B] with x, g rational vectors,  *)
(* lo/hi vectors of [fin |-> BOOLEAN, v |-> Rat] and B a rational SPD      *)
(* matrix.                                                                 *)
(***************************************************************************)
EXTENDS BFGS

Inf == [fin |-> FALSE, v |-> Zero]
Fin(q) == [fin |-> TRUE, v |-> q]
ELe(a, b) == IF ~b.fin THEN TRUE ELSE IF ~a.fin THEN FALSE ELSE RLe(a.v, b.v)
ELt(a, b) == IF ~a.fin THEN FALSE ELSE IF ~b.fin THEN TRUE ELSE RLt(a.v, b.v)

InBox(P, p) == \A i \in 1..P.n : /\ (P.lo[i].fin => RLe(P.lo[i].v, p[i]))
                                /\ (P.hi[i].fin => RLe(p[i], P.hi[i].v))
\* infinity norm of the projected gradient is zero
ProjGradZero(P) == \A i \in 1..P.n :
   \/ P.g[i] = Zero
   \/ RSign(P.g[i]) = 1 /\ P.lo[i].fin /\ P.x[i] = P.lo[i].v
   \/ RSign(P.g[i]) = -1 /\ P.hi[i].fin /\ P.x[i] = P.hi[i].v

\* breakpoint of variable i (cauchy.py:155-160)
Bp(P, i) == IF RSign(P.g[i]) = -1 /\ P.hi[i].fin THEN Fin(RDiv(RSub(P.x[i], P.hi[i].v), P.g[i]))
            ELSE IF RSign(P.g[i]) = 1 /\ P.lo[i].fin THEN Fin(RDiv(RSub(P.x[i], P.lo[i].v), P.g[i]))
            ELSE Inf
BoundHit(P, i) == IF RSign(P.g[i]) = -1 THEN P.hi[i].v ELSE P.lo[i].v

\* x(t) = P(x - t g)
Path(P, t) == [i \in 1..P.n |-> IF ELe(Bp(P, i), Fin(t)) THEN BoundHit(P, i)
                                 ELSE RSub(P.x[i], RMul(t, P.g[i]))]
\* direction of the path just after t (right) / just before t (left)
DirR(P, t) == [i \in 1..P.n |-> IF ELe(Bp(P, i), Fin(t)) THEN Zero ELSE RNeg(P.g[i])]
DirL(P, t) == [i \in 1..P.n |-> IF ELt(Bp(P, i), Fin(t)) THEN Zero ELSE RNeg(P.g[i])]
Slope(P, t, d) == Pick({ RAdd(Dot(P.g, d), Dot(d, Bz)) : Bz \in {MVec(P.B, VSub(Path(P, t), P.x))} })
QR(P, t) == Slope(P, t, DirR(P, t))
QL(P, t) == Slope(P, t, DirL(P, t))
Model(P, p) == Pick({ RAdd(Dot(P.g, z), RMul(<<1, 2>>, Quad(P.B, z))) : z \in {VSub(p, P.x)} })

Bps(P) == {Bp(P, i).v : i \in {j \in 1..P.n : Bp(P, j).fin}}
\* stationary point of the segment that starts at t
Stat(P, t) == Pick({ RAdd(t, RDiv(RNeg(Slope(P, t, d)), Quad(P.B, d))) : d \in {DirR(P, t)} })
CandT(P) == {Zero} \cup Bps(P)
            \cup {Stat(P, t) : t \in {s \in {Zero} \cup Bps(P) : DirR(P, s) # VZero(P.n) /\ RSign(QR(P, s)) = -1}}
IsLocalMin(P, t) == \A z \in {MVec(P.B, VSub(Path(P, t), P.x))} :
                    /\ \A d \in {DirR(P, t)} : RSign(RAdd(Dot(P.g, d), Dot(d, z))) >= 0
                    /\ (t = Zero \/ \A d \in {DirL(P, t)} : RSign(RAdd(Dot(P.g, d), Dot(d, z))) <= 0)
                    \* a stationary point beyond the end of its segment is not on the segment
LocalMins(P) == {t \in CandT(P) : IsLocalMin(P, t)}
GCPt(P) == CHOOSE t \in LocalMins(P) : \A s \in LocalMins(P) : RLe(t, s)

\* ---------------- the algorithm (tied breakpoints grouped) ----------------
NextBp(P, t) == LET S == {b \in Bps(P) : RLt(t, b)}
                IN IF S = {} THEN Inf ELSE Fin(CHOOSE b \in S : \A c \in S : RLe(b, c))
RECURSIVE Walk(_, _, _)
\* returns [t, knife]: knife = set of alternative stopping points a floating-point
\* implementation may legitimately produce (stationary point exactly on a breakpoint)
Walk(P, t, knife) ==
  Pick({ IF d = VZero(P.n) THEN [t |-> t, knife |-> knife]
         ELSE Pick({ IF RSign(f1) >= 0 THEN [t |-> t, knife |-> knife]
                     ELSE Pick({ IF ELt(Fin(ts), nb) THEN [t |-> ts, knife |-> knife]
                                 ELSE Walk(P, nb.v, IF ts = nb.v THEN knife \cup {nb.v} ELSE knife)
                                 : ts \in {RAdd(t, RDiv(RNeg(f1), Quad(P.B, d)))}, nb \in {NextBp(P, t)} })
                     : f1 \in {Slope(P, t, d)} })
         : d \in {DirR(P, t)} })
Alg(P) == Walk(P, Zero, {})

\* ---------------- the algorithm as published: one variable at a time ----------------
\* `order` is a sequence of the variables with finite positive breakpoints sorted by breakpoint;
\* `fixed` the set of variables fixed so far.  The slope test is applied after each single
\* variable, also inside the zero-length segment between two tied breakpoints.
DirF(P, fixed) == [i \in 1..P.n |-> IF i \in fixed \/ (Bp(P, i).fin /\ Bp(P, i).v = Zero) THEN Zero ELSE RNeg(P.g[i])]
PathF(P, t, fixed) == [i \in 1..P.n |-> IF i \in fixed THEN BoundHit(P, i)
                                        ELSE IF Bp(P, i).fin /\ Bp(P, i).v = Zero THEN P.x[i]
                                        ELSE RSub(P.x[i], RMul(t, P.g[i]))]
RECURSIVE WalkSeq(_, _, _, _, _)
WalkSeq(P, order, k, t, fixed) ==
  LET d == DirF(P, fixed)
      z == VSub(PathF(P, t, fixed), P.x)
      f1 == RAdd(Dot(P.g, d), Dot(d, MVec(P.B, z)))
      f2 == Quad(P.B, d)
  IN IF d = VZero(P.n) THEN [t |-> t, fixed |-> fixed]
     ELSE LET dtm == RDiv(RNeg(f1), f2)
              nb == IF k > Len(order) THEN Inf ELSE Bp(P, order[k])
          IN IF ~nb.fin THEN [t |-> RAdd(t, RMax(dtm, Zero)), fixed |-> fixed]
             ELSE IF RLt(dtm, RSub(nb.v, t)) THEN [t |-> RAdd(t, RMax(dtm, Zero)), fixed |-> fixed]
             ELSE WalkSeq(P, order, k + 1, nb.v, fixed \cup {order[k]})
PosVars(P) == {i \in 1..P.n : Bp(P, i).fin /\ RSign(Bp(P, i).v) = 1}
Orders(P) == {o \in [1..Cardinality(PosVars(P)) -> PosVars(P)] :
                /\ \A a, b \in DOMAIN o : a # b => o[a] # o[b]
                /\ \A a \in DOMAIN o : a + 1 \in DOMAIN o => RLe(Bp(P, o[a]).v, Bp(P, o[a + 1]).v)}
SeqPoints(P) == {LET w == WalkSeq(P, o, 1, Zero, {}) IN PathF(P, w.t, w.fixed) : o \in Orders(P)}

\* ---------------- properties of the definition / algorithm (design checks) ----------------
C08_AlgIsFirstLocalMin(P) == Alg(P).t = GCPt(P)
C08_Feasible(P) == InBox(P, Path(P, GCPt(P)))
C08_ModelNonIncrease(P) == RLe(Model(P, Path(P, GCPt(P))), Zero)
C08_ModelDecrease(P) == ~ProjGradZero(P) => RLt(Model(P, Path(P, GCPt(P))), Zero)
C08_OnPath(P) == \A i \in 1..P.n : LET p == Path(P, GCPt(P))[i] IN
                    \/ p = RSub(P.x[i], RMul(GCPt(P), P.g[i]))
                    \/ (P.lo[i].fin /\ p = P.lo[i].v) \/ (P.hi[i].fin /\ p = P.hi[i].v)
=============================================================================
