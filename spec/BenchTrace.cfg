SPECIFICATION Spec
