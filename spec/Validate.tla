------------------------------- MODULE Validate -------------------------------
(***************************************************************************)
(* Input validation of minimize_lbfgsb (base.py:30-77, main.py:347-376,    *)
(* 684-748, scalar_function.py:246-263), beyond the listed properties: a   *)
(* decision procedure over the classes of malformed input, in the order    *)
(* the code applies its tests, with the outcome it documents.  Design      *)
(* property: a rejected call raises ValueError BEFORE any user callable is *)
(* invoked (nothing is evaluated, nothing is left behind).                 *)
(* An input is a record of booleans (which defects it has); several may be *)
(* present at once - the first test that fires decides the message.        *)
(***************************************************************************)
EXTENDS Integers, Sequences, TLC

Defects == {"emptyX0", "boundsLen", "lbGtUb", "x0Outside", "ckXMismatch", "ckDimMismatch", "badJac"}

VARIABLES inp, pc, evaluated, outcome
vars == <<inp, pc, evaluated, outcome>>

Init == /\ inp \in [Defects -> BOOLEAN] /\ pc = "bounds" /\ evaluated = FALSE /\ outcome = "none"
        \* combinations that cannot be constructed: an empty x0 has no bounds to compare with
        /\ (inp["emptyX0"] => ~inp["x0Outside"] /\ ~inp["lbGtUb"] /\ ~inp["boundsLen"])

Reject(msg) == outcome' = msg /\ pc' = "rejected" /\ UNCHANGED <<inp, evaluated>>
\* base.get_bounds
Bounds == /\ pc = "bounds"
          /\ IF inp["emptyX0"] THEN Reject("x0 cannot be an empty vector")
             ELSE IF inp["boundsLen"] THEN Reject("Length of x0 != length of bounds")
             ELSE IF inp["lbGtUb"] THEN Reject("lower bounds is greater than an upper bound")
             ELSE IF inp["x0Outside"] THEN Reject("values violating the")
             ELSE pc' = "restore" /\ UNCHANGED <<inp, evaluated, outcome>>
\* main.initialize_X_and_G
Restore == /\ pc = "restore"
           /\ IF inp["ckXMismatch"] THEN Reject("x0 and checkpoint.x should be equal")
              ELSE IF inp["ckDimMismatch"] THEN Reject("size of correction vector")
              ELSE pc' = "wrapper" /\ UNCHANGED <<inp, evaluated, outcome>>
\* scalar_function.prepare_scalar_function
Wrapper == /\ pc = "wrapper"
           /\ IF inp["badJac"] THEN Reject("jac must be callable")
              ELSE pc' = "run" /\ UNCHANGED <<inp, evaluated, outcome>>
Run == pc = "run" /\ evaluated' = TRUE /\ outcome' = "accepted" /\ pc' = "done" /\ UNCHANGED inp
Next == Bounds \/ Restore \/ Wrapper \/ Run
Spec == Init /\ [][Next]_vars

RejectBeforeEvaluation == pc = "rejected" => ~evaluated
AcceptedIffClean == pc = "done" => \A d \in Defects : ~inp[d]
Emit == pc \in {"rejected", "done"} =>
          PrintT(<<"VALIDATE", [d \in Defects |-> inp[d]], outcome>>)
=============================================================================
