------------------------------- MODULE ScalarFn -------------------------------
(***************************************************************************)
(* The function wrapper (scalar_function.py:7-188): a single memo cell     *)
(* (point, value valid, gradient valid), counters, a scaling factor.       *)
(* Requests: Fun(p), Grad(p), FunAndGrad(p) at points of a small alphabet, *)
(* SetScale(s), and MutateCaller (the caller overwrites the array it       *)
(* passed: the cell holds a copy, so nothing changes).                     *)
(* `modeFD` = finite-difference gradient: computing a gradient first needs *)
(* the value at the point (reused if the cell holds it) and then K stencil *)
(* evaluations, all counted in nfev.                                       *)
(* Adopted reading of "not re-evaluated at the point it was last evaluated *)
(* at": the single memo cell - fun(a), grad(b), fun(a) re-evaluates.       *)
(***************************************************************************)
EXTENDS Integers, Sequences, FiniteSets

CONSTANTS Pts, Scales, MaxSteps, ModeFD, K

VARIABLES cell, fAt, gAt, scale, nfev, ngev, steps, last
vars == <<cell, fAt, gAt, scale, nfev, ngev, steps, last>>

NoAns == [kind |-> "none", p |-> 0, userF |-> 0, userG |-> 0, stencil |-> 0, fSrc |-> 0, gSrc |-> 0, sc |-> 0,
          hitF |-> FALSE]

Init == /\ cell = [pt |-> 0, f |-> FALSE, g |-> FALSE]    \* point 0 = the constructor's x0, nothing evaluated
        /\ fAt = 0 /\ gAt = 0 /\ scale \in Scales /\ nfev = 0 /\ ngev = 0 /\ steps = 0 /\ last = NoAns

Moved(p) == IF cell.pt = p THEN cell ELSE [pt |-> p, f |-> FALSE, g |-> FALSE]

\* what a request does, given the cell after update_x
NeedF(c) == ~c.f
NeedG(c) == ~c.g
\* number of user objective calls of a request
CallsF(kind, c) ==
  (IF kind \in {"fun", "fg"} /\ NeedF(c) THEN 1 ELSE 0)
  + (IF kind \in {"grad", "fg"} /\ NeedG(c) /\ ModeFD
     THEN (IF NeedF(c) /\ kind = "grad" THEN 1 ELSE 0) + K ELSE 0)

Request(kind, p) ==
  /\ steps < MaxSteps
  /\ LET c == Moved(p)
         evalF == (kind \in {"fun", "fg"} /\ NeedF(c)) \/ (ModeFD /\ kind \in {"grad", "fg"} /\ NeedG(c) /\ NeedF(c))
         evalG == kind \in {"grad", "fg"} /\ NeedG(c)
     IN /\ cell' = [pt |-> p, f |-> c.f \/ evalF, g |-> c.g \/ evalG]
        /\ fAt' = IF evalF THEN p ELSE fAt
        /\ gAt' = IF evalG THEN p ELSE gAt
        /\ nfev' = nfev + (IF evalF THEN 1 ELSE 0) + (IF evalG /\ ModeFD THEN K ELSE 0)
        /\ ngev' = ngev + (IF evalG THEN 1 ELSE 0)
        /\ last' = [kind |-> kind, p |-> p, userF |-> IF evalF THEN 1 ELSE 0,
                    userG |-> IF evalG THEN 1 ELSE 0, stencil |-> IF evalG /\ ModeFD THEN K ELSE 0,
                    fSrc |-> fAt', gSrc |-> gAt', sc |-> scale, hitF |-> (cell.pt = p /\ cell.f)]
  /\ steps' = steps + 1 /\ UNCHANGED scale
SetScale(s) == /\ steps < MaxSteps /\ scale' = s /\ steps' = steps + 1 /\ last' = NoAns
               /\ UNCHANGED <<cell, fAt, gAt, nfev, ngev>>
MutateCaller == /\ steps < MaxSteps /\ steps' = steps + 1 /\ last' = NoAns
                /\ UNCHANGED <<cell, fAt, gAt, scale, nfev, ngev>>

Next == \/ \E k \in {"fun", "grad", "fg"}, p \in Pts : Request(k, p)
        \/ \E s \in Scales : SetScale(s)
        \/ MutateCaller
Spec == Init /\ [][Next]_vars

\* ---- C15 ----
\* each answer is the value of the user's functions at the requested point (times the current factor)
C15_AnswerFresh == last.kind # "none" =>
                     /\ (last.kind \in {"fun", "fg"} => last.fSrc = last.p)
                     /\ (last.kind \in {"grad", "fg"} => last.gSrc = last.p)
                     /\ last.sc = scale
\* the objective is not re-evaluated at the point it was last evaluated at
C15_NoReeval == last.kind # "none" /\ last.hitF => last.userF = 0
\* the cell is coherent: valid flags mean "computed at the cell's point"
C15_CellCoherent == (cell.f => fAt = cell.pt) /\ (cell.g => gAt = cell.pt)
=============================================================================
