SPECIFICATION Spec
INVARIANT RejectBeforeEvaluation
INVARIANT AcceptedIffClean
INVARIANT Emit
