---------------------------- MODULE ScalarFnTrace ----------------------------
(* Trace validation of call histories of the real ScalarFunction.            *)
(* Events: [e |-> "Req", kind, p, userF (number of objective calls at p      *)
(*          outside stencils), userG (gradient computations), stencil,       *)
(*          fOk, gOk (answer == factor * fresh evaluation, bit for bit),     *)
(*          nfev, ngev (counters read after the call)]                       *)
(*         [e |-> "Scale", s]   [e |-> "Mutate"]                             *)
(* Each trace starts with [e |-> "Mode", fd, k].                             *)
EXTENDS Integers, Sequences, FiniteSets, TLC, Json, IOUtils

Traces == JsonDeserialize(IOEnv.TRACE_FILE)
VARIABLES tid, l, cell, nfev, ngev, fd, k, viol
vars == <<tid, l, cell, nfev, ngev, fd, k, viol>>
Tr == Traces[tid]
Ev == Tr[l]
Flag(name, ok) == IF ok THEN {} ELSE {name}

Init == tid \in 1..Len(Traces) /\ l = 1 /\ cell = [pt |-> 0, f |-> FALSE, g |-> FALSE]
        /\ nfev = 0 /\ ngev = 0 /\ fd = FALSE /\ k = 0 /\ viol = {}
Mode == l <= Len(Tr) /\ Ev.e = "Mode" /\ fd' = Ev.fd /\ k' = Ev.k /\ l' = l + 1
        /\ UNCHANGED <<tid, cell, nfev, ngev, viol>>
Req == /\ l <= Len(Tr) /\ Ev.e = "Req"
       /\ LET c == IF cell.pt = Ev.p THEN cell ELSE [pt |-> Ev.p, f |-> FALSE, g |-> FALSE]
              wantG == Ev.kind \in {"grad", "fg"} /\ ~c.g
              wantF == (Ev.kind \in {"fun", "fg"} /\ ~c.f) \/ (fd /\ wantG /\ ~c.f)
              hit == cell.pt = Ev.p /\ cell.f
          IN /\ cell' = [pt |-> Ev.p, f |-> c.f \/ Ev.userF > 0, g |-> c.g \/ Ev.userG > 0]
             /\ nfev' = nfev + Ev.userF + Ev.stencil
             /\ ngev' = ngev + Ev.userG
             /\ viol' = viol
                  \cup Flag("C15_AnswerFresh", (Ev.kind \in {"fun", "fg"} => Ev.fOk) /\ (Ev.kind \in {"grad", "fg"} => Ev.gOk))
                  \cup Flag("C15_NoReeval", ~(hit /\ Ev.userF > 0) /\ Ev.userF <= 1)
                  \cup Flag("C15_Counters", Ev.nfev = nfev' /\ Ev.ngev = ngev')
                  \cup Flag("C15_GradOnce", Ev.userG <= 1 /\ (Ev.userG = 1 => wantG))
                  \cup Flag("C16_StencilCounted", fd => (Ev.stencil > 0) = (Ev.userG > 0))
       /\ l' = l + 1 /\ UNCHANGED <<tid, fd, k>>
Other == l <= Len(Tr) /\ Ev.e \in {"Scale", "Mutate"} /\ l' = l + 1
         /\ UNCHANGED <<tid, cell, nfev, ngev, fd, k, viol>>
Finish == l = Len(Tr) + 1 /\ l' = l + 1 /\ PrintT(<<"ACC", tid, viol>>)
          /\ UNCHANGED <<tid, cell, nfev, ngev, fd, k, viol>>
Next == Mode \/ Req \/ Other \/ Finish
Spec == Init /\ [][Next]_vars
=============================================================================
