--------------------------------- MODULE Equiv ---------------------------------
(***************************************************************************)
(* Relational monitor for two runs A and B (C06, C07, C12, C13, C14, C17). *)
(* The harness merges the two evaluation logs position by position and     *)
(* projects each position to facts; the monitor decides whether the pair   *)
(* of runs is in the required relation.                                    *)
(*                                                                         *)
(* A merged trace is <<[e |-> "Mode", prop, exact]>> followed by           *)
(*   [e |-> "Step", same]              the k-th evaluations are at the     *)
(*                                      same point (bit-exact when `exact`, *)
(*                                      up to rounding otherwise)          *)
(*   [e |-> "Deviation", kind]         a documented deviation of the port  *)
(*                                      was triggered in run A here (C12)  *)
(*   [e |-> "Roundoff"]                the objective decrease has reached  *)
(*                                      the round-off level (C12)          *)
(*   [e |-> "Extra", who]              one run performed an evaluation the *)
(*                                      other did not                      *)
(*   [e |-> "Result", fields]          record of booleans, one per compared *)
(*                                      field of the two results           *)
(* Lock-step may be lost only AT a Deviation event (the excuse lapses as   *)
(* soon as the two runs agree again on an evaluation: a deviation that was *)
(* triggered but changed nothing excuses nothing later) or once the        *)
(* round-off regime is reached (sticky) - never in exact mode; result      *)
(* fields must agree unless lock-step was lost legitimately.               *)
(***************************************************************************)
EXTENDS Integers, Sequences, FiniteSets, TLC, Json, IOUtils

Traces == JsonDeserialize(IOEnv.TRACE_FILE)
VARIABLES tid, l, exact, prop, excused, lost, steps, viol
vars == <<tid, l, exact, prop, excused, lost, steps, viol>>
Tr == Traces[tid]
Ev == Tr[l]
Flag(name, ok) == IF ok THEN {} ELSE {prop \o "_" \o name}

Init == /\ tid \in 1..Len(Traces) /\ l = 1 /\ exact = TRUE /\ prop = "C00"
        /\ excused = 0 /\ lost = FALSE /\ steps = 0 /\ viol = {}
Mode == /\ l <= Len(Tr) /\ Ev.e = "Mode" /\ exact' = Ev.exact /\ prop' = Ev.prop /\ l' = l + 1
        /\ UNCHANGED <<tid, excused, lost, steps, viol>>
\* excused: 0 = no, 1 = a deviation was just triggered (lapses on the next agreeing evaluation), 2 = round-off regime
Step == /\ l <= Len(Tr) /\ Ev.e = "Step"
        /\ steps' = steps + 1
        /\ lost' = (lost \/ ~Ev.same)
        /\ viol' = viol \cup Flag("Lockstep", Ev.same \/ lost \/ (excused > 0 /\ ~exact))
        /\ excused' = IF Ev.same /\ excused = 1 /\ ~lost THEN 0 ELSE excused
        /\ l' = l + 1 /\ UNCHANGED <<tid, exact, prop>>
Excuse == /\ l <= Len(Tr) /\ Ev.e \in {"Deviation", "Roundoff"}
          /\ excused' = IF Ev.e = "Roundoff" THEN 2 ELSE (IF excused = 2 THEN 2 ELSE 1)
          /\ l' = l + 1
          /\ UNCHANGED <<tid, exact, prop, lost, steps, viol>>
Extra == /\ l <= Len(Tr) /\ Ev.e = "Extra"
         /\ lost' = TRUE
         /\ viol' = viol \cup Flag("SameNumberOfEvaluations", lost \/ (excused > 0 /\ ~exact))
         /\ l' = l + 1 /\ UNCHANGED <<tid, exact, prop, excused, steps>>
Result == /\ l <= Len(Tr) /\ Ev.e = "Result"
          /\ viol' = viol \cup UNION { Flag("Result_" \o f, Ev.fields[f] \/ (lost /\ excused > 0 /\ ~exact)) : f \in DOMAIN Ev.fields }
          /\ l' = l + 1 /\ UNCHANGED <<tid, exact, prop, excused, lost, steps>>
Finish == /\ l = Len(Tr) + 1 /\ l' = l + 1 /\ PrintT(<<"ACC", tid, viol>>)
          /\ UNCHANGED <<tid, exact, prop, excused, lost, steps, viol>>
Next == Mode \/ Step \/ Excuse \/ Extra \/ Result \/ Finish
Spec == Init /\ [][Next]_vars
=============================================================================
