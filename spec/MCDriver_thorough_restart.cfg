SPECIFICATION DSpec
CONSTANTS
  MaxRank = 2
  Variant = "none"
  MaxChain = 2
  MaxIters = {0, 1, 2, 3}
  MaxFuns = {1, 2, 4, 6}
  MaxLss = {1, 2}
  MaxCors = {1, 2}
  TargetKinds = {"none", "float", "call"}
  GtolKinds = {"float"}
  CbStops = {0, 1, 2}
  Upds = {"none"}
  Scalers = {FALSE}
  Envs = {"any"}
  Faults = FALSE
INVARIANT I_C04_Documented
INVARIANT I_C04_TruthPGTOL
INVARIANT I_C04_TruthTARGET
INVARIANT I_C04_TruthMAXITER
INVARIANT I_C04_TruthMAXFUN
INVARIANT I_C04_TruthCALLBACK
INVARIANT I_C04_Success
INVARIANT I_C04_BudgetNit
INVARIANT I_C04_BudgetNfev
INVARIANT I_C04_StopOnce
INVARIANT I_C04_StopAtMostOnce
INVARIANT I_C03_Monotone
INVARIANT I_C03_ResultNotWorse
INVARIANT I_C03_SnapNotWorse
INVARIANT I_C05_FunOfX
INVARIANT I_C05_JacOfX
INVARIANT I_C05_Counters
INVARIANT I_C05_Held
INVARIANT I_C05_SnapFunOfX
INVARIANT I_C05_SnapCounters
INVARIANT I_C05_ResultIsX
INVARIANT I_C07_SnapNit
INVARIANT I_C07_SnapX
INVARIANT I_C07_SnapFrozen
INVARIANT I_C07_SnapPairs
INVARIANT I_C10_Bounded
INVARIANT I_C13_TargetFirst
INVARIANT I_C13_ReturnFiltered
INVARIANT I_C13_SnapFiltered
INVARIANT I_C18_Count
INVARIANT I_C18_Provenance
INVARIANT I_C18_SnapProvenance
INVARIANT I_C18_Curvature
INVARIANT I_C18_ProvenanceRestart
INVARIANT I_C18_InheritedExact
INVARIANT I_C17_ScalerOnce
INVARIANT I_C20_Propagates
INVARIANT I_C20_NoResultAfterFault
INVARIANT C01_NoAbnormal
PROPERTY C07_CallbackNeutral
PROPERTY C06_RestoreEqualsStopped
PROPERTY C13_IdentityNeutral
PROPERTY C20_OnlyPropagate
