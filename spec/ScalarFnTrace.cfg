SPECIFICATION Spec
