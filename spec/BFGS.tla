--------------------------------- MODULE BFGS ---------------------------------
(***************************************************************************)
(* The limited-memory BFGS matrix of a sequence of correction pairs, three *)
(* ways (bfgsmats.py:242-297, Byrd-Nocedal-Schnabel 1994):                 *)
(*   Dense(pairs)    the BFGS recursion from theta*I, pairs oldest first   *)
(*   Compact(pairs)  theta*I - W M W^T with M^-1 = [[-D, L^T],[L, theta S^T S]] *)
(*   HInv(pairs)     the inverse matrix by the two-loop recursion          *)
(* pairs is a sequence of records [s, y] of rational vectors, oldest first.*)
(***************************************************************************)
EXTENDS LinAlg

Theta(pairs) == LET p == pairs[Len(pairs)] IN RDiv(Dot(p.y, p.y), Dot(p.s, p.y))

BFGSUpdate(B, s, y) ==
  Pick({ MAdd(MSub(B, MScale(RInv(Dot(s, Bs)), Outer(Bs, Bs))), MScale(RInv(Dot(y, s)), Outer(y, y)))
         : Bs \in {MVec(B, s)} })

RECURSIVE DenseFrom(_, _, _)
DenseFrom(B, pairs, k) ==
  IF k > Len(pairs) THEN B
  ELSE Pick({ DenseFrom(B2, pairs, k + 1) : B2 \in {BFGSUpdate(B, pairs[k].s, pairs[k].y)} })
Dense(n, pairs) == IF pairs = <<>> THEN MIdent(n, One)
                   ELSE DenseFrom(MIdent(n, Theta(pairs)), pairs, 1)

\* ---- compact representation ----
SMat(n, pairs) == [i \in 1..n |-> [k \in 1..Len(pairs) |-> pairs[k].s[i]]]   \* n x m
YMat(n, pairs) == [i \in 1..n |-> [k \in 1..Len(pairs) |-> pairs[k].y[i]]]
WMat(n, pairs) ==   \* n x 2m : [Y, theta S]
  LET m == Len(pairs) th == Theta(pairs) IN
  [i \in 1..n |-> [k \in 1..(2 * m) |-> IF k <= m THEN pairs[k].y[i] ELSE RMul(th, pairs[k - m].s[i])]]
MInvMat(pairs) ==   \* 2m x 2m : [[-D, L^T],[L, theta S^T S]],  L_ij = s_i.y_j (i > j), D_ii = s_i.y_i
  LET m == Len(pairs) th == Theta(pairs)
      sy(i, j) == Dot(pairs[i].s, pairs[j].y)
  IN [a \in 1..(2 * m) |-> [b \in 1..(2 * m) |->
        IF a <= m /\ b <= m THEN (IF a = b THEN RNeg(sy(a, a)) ELSE Zero)
        ELSE IF a <= m /\ b > m THEN (IF (b - m) > a THEN sy(b - m, a) ELSE Zero)
        ELSE IF a > m /\ b <= m THEN (IF (a - m) > b THEN sy(a - m, b) ELSE Zero)
        ELSE RMul(th, Dot(pairs[a - m].s, pairs[b - m].s))]]
Compact(n, pairs) ==
  IF pairs = <<>> THEN MIdent(n, One)
  ELSE Pick({ MSub(MIdent(n, Theta(pairs)), Pick({ MMul(WM, MT(W)) : WM \in {MMul(W, M)} }))
              : W \in {WMat(n, pairs)}, M \in {MInverse(MInvMat(pairs))} })

\* ---- inverse Hessian by the two-loop recursion (scipy LbfgsInvHessProduct) ----
RECURSIVE Loop1(_, _, _, _)   \* returns <<q, alphas>> going from newest to oldest
Loop1(pairs, k, q, al) ==
  IF k = 0 THEN <<q, al>>
  ELSE LET rho == RInv(Dot(pairs[k].y, pairs[k].s))
           a == RMul(rho, Dot(pairs[k].s, q))
       IN Loop1(pairs, k - 1, VSub(q, VScale(a, pairs[k].y)), [al EXCEPT ![k] = a])
RECURSIVE Loop2(_, _, _, _)
Loop2(pairs, k, r, al) ==
  IF k > Len(pairs) THEN r
  ELSE LET rho == RInv(Dot(pairs[k].y, pairs[k].s))
           b == RMul(rho, Dot(pairs[k].y, r))
       IN Loop2(pairs, k + 1, VAdd(r, VScale(RSub(al[k], b), pairs[k].s)), al)
\* scipy's LbfgsInvHessProduct uses H0 = I (no scaling)
HInvVec(pairs, v) ==
  LET l1 == Loop1(pairs, Len(pairs), v, [k \in 1..Len(pairs) |-> Zero])
  IN Loop2(pairs, 1, l1[1], l1[2])
HInvDiag(n, pairs) == [i \in 1..n |-> HInvVec(pairs, [j \in 1..n |-> IF j = i THEN One ELSE Zero])[i]]
HInvDense(n, pairs) == MT([i \in 1..n |-> HInvVec(pairs, [j \in 1..n |-> IF j = i THEN One ELSE Zero])])

Curv(p) == RSign(Dot(p.s, p.y)) = 1
=============================================================================
