SPECIFICATION TSpec
CONSTANTS
  MaxBudget = 0
  Ranks = {0}
  Start = 0
