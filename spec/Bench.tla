--------------------------------- MODULE Bench ---------------------------------
(***************************************************************************)
(* The polynomial benchmark functions of lbfgsb/benchmarks.py transcribed  *)
(* over exact rationals, and their exact partial derivatives obtained by   *)
(* central stencils that are exact for the polynomial degree (5-point for  *)
(* degree <= 4, 7-point for degree <= 6): an oracle for f, grad f, the     *)
(* shape of the gradient and the scalar-ness of f that is independent of   *)
(* the closed-form gradients of the package (C19).                         *)
(* TLC evaluates every lattice point x in Vals^N and emits one JSON line   *)
(* per (function, point); the harness replays each into lbfgsb.<name> and  *)
(* lbfgsb.<name>_grad.                                                     *)
(***************************************************************************)
EXTENDS LinAlg, TLC, Json

CONSTANTS N, Vals, Fns, Neg     \* Neg: also the negated values (a cfg file cannot hold negative numbers)

Sq(a) == RMul(a, a)
Cu(a) == RMul(a, Sq(a))
P4(a) == Sq(Sq(a))
Dec(n, d) == Norm(n, d)

Sphere(x) == Sum([i \in 1..Len(x) |-> Sq(x[i])])
Quartic(x) == Sum([i \in 1..Len(x) |-> RMul(R(i), P4(x[i]))])
Rosenbrock(x) == Sum([i \in 1..(Len(x) - 1) |->
                    RAdd(RMul(R(100), Sq(RSub(x[i + 1], Sq(x[i])))), Sq(RSub(One, x[i])))])
Beale(x) == Sum([i \in 1..(Len(x) - 1) |->
               LET a == x[i] b == x[i + 1] IN
               RAdd(RAdd(Sq(RAdd(RSub(Dec(3, 2), a), RMul(a, b))),
                         Sq(RAdd(RSub(Dec(9, 4), a), RMul(a, Sq(b))))),
                    Sq(RAdd(RSub(Dec(21, 8), a), RMul(a, Cu(b)))))])
Styblinski(x) == RAdd(RMul(Dec(1, 2), Sum([i \in 1..Len(x) |->
                          RAdd(RSub(P4(x[i]), RMul(R(16), Sq(x[i]))), RMul(R(5), x[i]))])),
                      RMul(Dec(3916599, 100000), R(Len(x))))

F(name, x) == CASE name = "sphere" -> Sphere(x)
                [] name = "quartic" -> Quartic(x)
                [] name = "rosenbrock" -> Rosenbrock(x)
                [] name = "beale" -> Beale(x)
                [] name = "styblinski_tang" -> Styblinski(x)

Shift(x, i, k) == [j \in 1..Len(x) |-> IF j = i THEN RAdd(x[j], R(k)) ELSE x[j]]
\* 7-point central difference with h = 1: exact for polynomials of degree <= 6 in x[i]
D7(name, x, i) ==
  RMul(Dec(1, 60),
       RAdd(RAdd(RMul(R(45), RSub(F(name, Shift(x, i, 1)), F(name, Shift(x, i, -1)))),
                 RMul(R(-9), RSub(F(name, Shift(x, i, 2)), F(name, Shift(x, i, -2))))),
            RSub(F(name, Shift(x, i, 3)), F(name, Shift(x, i, -3)))))
\* 5-point central difference with h = 1: exact for degree <= 4
D5(name, x, i) ==
  RMul(Dec(1, 12),
       RAdd(RMul(R(8), RSub(F(name, Shift(x, i, 1)), F(name, Shift(x, i, -1)))),
            RSub(F(name, Shift(x, i, -2)), F(name, Shift(x, i, 2)))))
Grad(name, x) == [i \in 1..Len(x) |-> D7(name, x, i)]

VARIABLES name, x, done
vars == <<name, x, done>>
Chained(f) == f \in {"rosenbrock", "beale"}
AllVals == IF Neg THEN Vals \cup {-v : v \in Vals} ELSE Vals
Init == /\ name \in Fns /\ x \in [1..N -> AllVals] /\ done = FALSE
        /\ (Chained(name) => N >= 2)
XR == [i \in 1..N |-> R(x[i])]
Emit == /\ ~done /\ done' = TRUE /\ UNCHANGED <<name, x>>
        /\ PrintT(ToJson([fn |-> name, x |-> x, f |-> F(name, XR), g |-> Grad(name, XR)]))
Spec == Init /\ [][Emit]_vars
\* design check of the oracle itself: for the degree <= 4 functions the two exact stencils agree
StencilsAgree == name \in {"sphere", "quartic", "rosenbrock", "styblinski_tang"} =>
                   \A i \in 1..N : D5(name, XR, i) = D7(name, XR, i)
=============================================================================
