----------------------------- MODULE DriverTrace -----------------------------
(***************************************************************************)
(* Trace validation: every event recorded from a real run of               *)
(* minimize_lbfgsb (harness/observe.py) is bound to the Driver action of   *)
(* the critical section it was emitted from.  Driver's invariants are      *)
(* evaluated in every state of the resulting behaviour; the names of the   *)
(* violated ones are accumulated in `viol` together with the event-level   *)
(* clauses (feasibility, line-search contract, memory discipline).         *)
(*                                                                         *)
(* All traces of a check are validated in one TLC run: `tid` is chosen in  *)
(* the initial state.  Unlogged internal steps (stop tests, loop guard,    *)
(* memo hits) are resolved by looking at the next logged event, so each    *)
(* trace has exactly one behaviour and a trace the specification cannot    *)
(* follow is reported (Conf_Structure) instead of silently dropped.        *)
(***************************************************************************)
EXTENDS Driver, Json, IOUtils

Traces == JsonDeserialize(IOEnv.TRACE_FILE)

VARIABLES tid, l, viol
tvars == <<vars, tid, l, viol>>

Tr == Traces[tid]
More == l <= Len(Tr)
Ev == Tr[l]
IsEv(k) == More /\ Ev.e = k
Consume == l' = l + 1 /\ tid' = tid
Silent  == l' = l /\ tid' = tid
Note(S) == viol' = viol \cup S \cup Violated'
Flag(name, ok) == IF ok THEN {} ELSE {name}

CfgOf(c) ==
  [maxiter |-> c.maxiter, maxfun |-> c.maxfun, maxls |-> c.maxls, maxcor |-> c.maxcor,
   tk |-> c.tk, gk |-> c.gk, T |-> c.T, ftol0 |-> c.ftol0, cb |-> c.cb, cbStop |-> 0,
   upd |-> c.upd, scaler |-> c.scaler, fd |-> c.fd, env |-> "any", ck |-> c.ck,
   ckNit |-> c.ckNit, ckNfev |-> c.ckNfev, ckNjev |-> c.ckNjev, ckF |-> c.ckF,
   ckMem |-> c.ckMem, ckPg |-> c.ckPg]

ObsOf(e, fz) ==
  [x |-> e.x, msg |-> e.msg, success |-> e.success, nit |-> e.nit, nfev |-> e.nfev,
   njev |-> e.njev, funOk |-> e.funOk, jacOk |-> e.jacOk, pg |-> e.pg, leT |-> e.leT,
   fr |-> e.fr, prov |-> [i \in DOMAIN e.prov |-> <<e.prov[i][1], e.prov[i][2]>>],
   yOk |-> [i \in DOMAIN e.prov |-> e.prov[i][3]], exact |-> [i \in DOMAIN e.prov |-> e.prov[i][4]], yAp |-> [i \in DOMAIN e.prov |-> e.prov[i][5]],
   syPos |-> e.syPos, frozen |-> fz]

Feas(e, site) == Flag("C02_EvalInBox@" \o site, e.inbox) \cup Flag("C02_FixedMoved@" \o site, e.fixed)

TInit == Init /\ tid \in 1..Len(Traces) /\ l = 1 /\ viol = {}

-----------------------------------------------------------------------------
TStart   == IsEv("Start") /\ Start(CfgOf(Ev.cfg), Ev.x0) /\ Consume
            /\ Note(Flag("C02_StartInBox", Ev.inbox))
TRestart == pc = "Done" /\ IsEv("Start") /\ Restart /\ Silent /\ Note({})

IsExc == More /\ "exc" \in DOMAIN Ev /\ Ev.exc
KindOf(e) == IF e.e = "EvalF" THEN "fun" ELSE IF e.e \in {"EvalG", "EvalS"} THEN "jac"
             ELSE IF e.e = "Call" THEN e.who ELSE IF e.e = "Callback" THEN "cb" ELSE "other"
TRaise == IsExc /\ Raise(KindOf(Ev)) /\ Consume /\ Note({})
TRaiseLS == IsEv("LSEnd") /\ Ev.ret = "exc" /\ pc = "Raised" /\ Consume /\ UNCHANGED vars /\ Note({})

TEvalF0 == IsEv("EvalF") /\ ~Ev.exc /\ EvalF0(Ev.pt, Ev.fr) /\ Consume /\ Note(Feas(Ev, "x0"))
TCallStop == IsEv("Call") /\ ~Ev.exc /\ Ev.who \in {"ftarget", "gtol"} /\ CallStop(Ev.who)
             /\ Consume /\ Note({})
TLateCallStop == IsEv("Call") /\ ~Ev.exc /\ Ev.who \in {"ftarget", "gtol"} /\ LateCallStop(Ev.who)
                 /\ Consume /\ Note({})
TSkipStop == ~(IsEv("Call") /\ Ev.who = (IF pc = "StopT" THEN "ftarget" ELSE "gtol"))
             /\ SkipStop /\ Silent /\ Note({})
TEarly   == IsEv("Return") /\ EarlyTarget /\ Silent /\ Note({})
TNoEarly == ~IsEv("Return") /\ NoEarlyTarget /\ Silent /\ Note({})
TStencil == IsEv("EvalS") /\ ~Ev.exc /\ Stencil /\ Consume /\ Note(Feas(Ev, "stencil"))
TEvalG0  == IsEv("EvalG") /\ ~Ev.exc /\ EvalG0(Ev.pt, Ev.pg) /\ Consume /\ Note(Feas(Ev, "x0"))
TScaler  == IsEv("Call") /\ ~Ev.exc /\ Ev.who = "scaler" /\ CallScaler /\ Consume
            /\ Note(Flag("C17_ScalerArgs", Ev.argsOk))
TNoScaler == ~(IsEv("Call") /\ Ev.who = "scaler") /\ SkipScaler /\ Silent /\ Note({})
TScalerLate == IsEv("Call") /\ ~Ev.exc /\ Ev.who = "scaler" /\ CallScalerLate /\ Consume
               /\ Note({"C17_ScalerBeforeUpdate"} \cup Flag("C17_ScalerArgs", Ev.argsOk))
TUpd0    == IsEv("Call") /\ ~Ev.exc /\ Ev.who = "upd" /\ CallUpd0 /\ Consume /\ Note({})
TNoUpd0  == ~(IsEv("Call") /\ Ev.who = "upd") /\ SkipUpd0 /\ Silent /\ Note({})

MemClauses(e) ==
  LET acc == e.ids # e.before IN
     Flag("C10_BeforeIsMem", e.before = mem)
     \cup Flag("C10_RejectUntouched", acc \/ e.ids = mem)
     \cup Flag("C10_FIFO", ~acc \/ e.ids = Updated(e.before, e.cand, TRUE, cfg.maxcor))
     \cup Flag("C10_CurvIffAccepted", acc = e.curv)
     \cup Flag("C10_AllCurv", e.allCurv)
     \cup Flag("C10_CandIsX", e.cand = x)
LateScalerNext == IsEv("Call") /\ Ev.who = "scaler"      \* (consumed by TScalerLate first: keeps the silent steps deterministic)
TMem0First   == ~IsEv("MemUpd") /\ ~LateScalerNext /\ Mem0First /\ Silent /\ Note({})
TMem0Restart == IsEv("MemUpd") /\ Mem0Restart(Ev.ids # Ev.before, Ev.ids) /\ Consume
                /\ Note(MemClauses(Ev) \ {"C10_BeforeIsMem"})
TGuardEnter == (IsEv("LSBegin") \/ IsEv("Cauchy") \/ IsEv("Subspace")) /\ GuardEnter /\ Silent /\ Note({})
TGuardExit  == IsEv("Return") /\ GuardExit /\ Silent /\ Note({})
\* kernel calls of an iteration (main.py:505-533), logged with facts computed from the real arrays and an
\* independent dense model: structure is decided here, the exact numerics on the lattice (MCKernels)
TCauchy == IsEv("Cauchy") /\ pc = "Dir" /\ UNCHANGED vars /\ Consume
           /\ Note(Flag("C08_Feasible", Ev.feasible) \cup Flag("C08_RestingVariablesUnmoved", Ev.t0Unmoved)
                   \cup Flag("C08_ModelNonIncrease", Ev.modelNonInc) \cup Flag("C08_FirstLocalMinimiser", Ev.matchesRef)
                   \cup Flag("C08_AuxiliaryVector", Ev.cOk))
TSubspace == IsEv("Subspace") /\ pc = "Dir" /\ UNCHANGED vars /\ Consume
             /\ Note(Flag("C09_ActiveFixed", Ev.activeFixed) \cup Flag("C09_Feasible", Ev.feasibleTol)
                     \cup Flag("C09_ModelNonIncrease", Ev.modelNonInc) \cup Flag("C09_Descent", Ev.descent)
                     \cup Flag("C09_TruncatedNewtonPoint", Ev.matchesRef))
TLSBegin == IsEv("LSBegin") /\ LSBegin(Ev.pt, Ev.budget) /\ Consume
            /\ Note(Flag("C03_LSStartsAtIterate", Ev.pt = x)
                    \cup Flag("C09_Descent", Ev.descent)
                    \cup Flag("C04_LSBudget", Ev.budget = Min(cfg.maxls, cfg.maxfun - nfev)))
TTrialF == IsEv("EvalF") /\ ~Ev.exc /\ Ev.site = "ls" /\ TrialF(Ev.pt, Ev.fr) /\ Consume
           /\ Note(Feas(Ev, "ls") \cup Flag("C11_TrialInBox", Ev.inbox /\ Ev.fixed))
TTrialG == IsEv("EvalG") /\ ~Ev.exc /\ Ev.site = "ls" /\ TrialG(Ev.pt, Ev.pg) /\ Consume
           /\ Note(Feas(Ev, "ls") \cup Flag("C11_TrialInBox", Ev.inbox /\ Ev.fixed)
                   \cup Flag("C05_GradAtTrialPoint", Ev.pt = ls.pend))
LSEndClauses(e) ==
     Flag("C11_Budget", e.evals <= ls.budget)
     \cup Flag("C11_Downhill", e.ret # "step" \/ gen > 0 \/ (e.fr >= 0 /\ e.fr < fx))
     \cup Flag("C11_StepRange", e.ret # "step" \/ (e.pos /\ e.leMax))
     \cup Flag("C11_StepIsTrial", e.ret # "step" \/ \E i \in DOMAIN ls.trials : ls.trials[i].pt = e.pt)
TLSNone == IsEv("LSEnd") /\ Ev.ret = "none" /\ (LSFailAbort \/ LSFailReset) /\ Consume
           /\ Note(LSEndClauses(Ev))
TLSStep == IsEv("LSEnd") /\ Ev.ret = "step" /\ LSStep(Ev.pt, Ev.fr) /\ Consume
           /\ Note(LSEndClauses(Ev))
TAccFEval == IsEv("EvalF") /\ ~Ev.exc /\ Ev.site = "main" /\ AccFEval(Ev.pt, Ev.fr) /\ Consume
             /\ Note(Feas(Ev, "accept") \cup Flag("C15_NoReeval", ~(memo.pt = x /\ memo.f))
                     \cup Flag("C03_IterateIsAcceptedTrial", Ev.near))
TAccFHit  == ~(IsEv("EvalF") /\ Ev.site = "main") /\ AccFHit /\ Silent /\ Note({})
TAccFSkip == ~(IsEv("EvalF") /\ Ev.site = "main") /\ AccFSkip /\ Silent /\ Note({})
TAccGEval == IsEv("EvalG") /\ ~Ev.exc /\ Ev.site = "main" /\ AccGEval(Ev.pt, Ev.pg) /\ Consume
             /\ Note(Feas(Ev, "accept") \cup Flag("C05_GradAtIterate", Ev.pt = x))
TAccGHit  == ~(IsEv("EvalG") \/ IsEv("EvalS")) /\ AccGHit /\ Silent /\ Note({})
TAccGSkip == ~(IsEv("EvalG") \/ IsEv("EvalS")) /\ AccGSkip /\ Silent /\ Note({})
TUpd      == IsEv("Call") /\ ~Ev.exc /\ Ev.who = "upd" /\ CallUpd /\ Consume /\ Note({})
TStopTarget == IsEv("Return") /\ Ev.msg = "TARGET" /\ StopTarget /\ Silent /\ Note({})
TStopFtol   == IsEv("Return") /\ Ev.msg # "TARGET" /\ StopFtol /\ Silent /\ Note({})
TNoStop     == ~IsEv("Return") /\ NoStop /\ Silent /\ Note({})
TFilter == IsEv("Filter") /\ Filter(Ev.ids) /\ Consume
           /\ Note(Flag("C13_FilterKeepsNewest", Ev.ids # <<>> /\ Last(Ev.ids) = Last(mem))
                   \cup Flag("C13_FilterSubseq", IsSubSeq(Ev.ids, mem))
                   \cup Flag("C13_FilterCurv", Ev.allCurv))
\* the filter is an internal step: a run that does not log it is judged on the resulting memory alone
TNoFilter == pc = "Filter" /\ ~IsEv("Filter") /\ Filter(mem) /\ Silent /\ Note({})
TFilter0 == IsEv("Filter") /\ Filter0(Ev.ids) /\ Consume
           /\ Note(Flag("C13_FilterKeepsNewest", Ev.ids # <<>> /\ Last(Ev.ids) = Last(mem))
                   \cup Flag("C13_FilterSubseq", IsSubSeq(Ev.ids, mem))
                   \cup Flag("C13_FilterCurv", Ev.allCurv))
TNoFilter0 == pc = "Filter0" /\ ~IsEv("Filter") /\ ~(IsEv("Call") /\ Ev.who = "scaler") /\ Filter0(mem) /\ Silent /\ Note({})
TMemUpdate == IsEv("MemUpd") /\ MemUpdate(Ev.ids # Ev.before, Ev.ids) /\ Consume
              /\ Note(MemClauses(Ev))
TCallback == IsEv("Callback") /\ ~Ev.exc /\ Callback(StateRec("cb", ObsOf(Ev, Ev.frozen)), Ev.ret) /\ Consume
             /\ Note(Flag("C02_CallbackInBox", Ev.inbox /\ Ev.fixed) \cup Flag("C07_XkIsX", Ev.xkSame))
TNoCallback == ~IsEv("Callback") /\ NoCallback /\ Silent /\ Note({})
TEndIter == EndIter /\ Silent /\ Note({})
TReturn == IsEv("Return") /\ Return(ObsOf(Ev, TRUE)) /\ Consume
           /\ Note(Flag("C02_ReturnInBox", Ev.inbox /\ Ev.fixed))
TPropagate == IsEv("Raised") /\ Propagate(Ev.same) /\ Consume /\ Note({})

(* An exception nobody injected reaches the caller (e.g. the differentiation routine    *)
(* rejecting an iterate that left the box).                                            *)
TCrash == /\ IsEv("Raised") /\ pc \notin {"Raised", "Idle", "Done", "Lost"} /\ ~Ev.injected
          /\ out' = [kind |-> "crashed"] /\ pc' = "Done"
          /\ UNCHANGED <<cfg, chain, nit, nfev, njev, nit0, n0, f0r, x, fx, fAt, gAt, pg, memo,
                         mem, matsOf, ls, task, success, calls, lastCb, snap, npts, gen, fgen, uphill, fault>>
          /\ Consume /\ Note({IF cfg.fd THEN "C16_NoRaise" ELSE "Conf_UnexpectedRaise"})

TCrashLS == /\ IsEv("LSEnd") /\ Ev.ret = "exc" /\ fault = "none"
            /\ UNCHANGED vars /\ Consume /\ Note({})

Main == \/ TCrash \/ TCrashLS \/ TStart \/ TRestart \/ TRaise \/ TRaiseLS \/ TEvalF0 \/ TCallStop \/ TLateCallStop \/ TSkipStop \/ TEarly
        \/ TNoEarly \/ TStencil \/ TEvalG0 \/ TScaler \/ TNoScaler \/ TScalerLate \/ TUpd0 \/ TNoUpd0 \/ TFilter0 \/ TNoFilter0
        \/ TMem0First \/ TMem0Restart \/ TGuardEnter \/ TGuardExit \/ TCauchy \/ TSubspace \/ TLSBegin \/ TTrialF \/ TTrialG
        \/ TLSNone \/ TLSStep \/ TAccFEval \/ TAccFHit \/ TAccFSkip \/ TAccGEval \/ TAccGHit
        \/ TAccGSkip \/ TUpd \/ TStopTarget \/ TStopFtol \/ TNoStop \/ TFilter \/ TNoFilter \/ TMemUpdate
        \/ TCallback \/ TNoCallback \/ TEndIter \/ TReturn \/ TPropagate

(* The specification cannot follow the trace: after a fault this is a      *)
(* swallowed exception (C20); otherwise a structural divergence.  The rest *)
(* of the trace is skipped.                                                *)
Diverge == /\ More /\ pc # "Lost" /\ ~ENABLED Main
           /\ viol' = viol \cup (IF fault # "none" THEN {"C20_Propagates"}
                                 ELSE {"Conf_Structure@" \o pc \o "/" \o Ev.e})
           /\ pc' = "Lost" /\ l' = Len(Tr) + 1 /\ tid' = tid
           /\ PrintT(<<"DIVERGE", tid, l, pc, Ev.e>>)
           /\ UNCHANGED <<cfg, chain, nit, nfev, njev, nit0, n0, f0r, x, fx, fAt, gAt, pg, memo,
                          mem, matsOf, ls, task, success, calls, lastCb, snap, npts, gen, fgen, uphill,
                          fault, out>>

Finish == /\ l = Len(Tr) + 1 /\ pc \in {"Done", "Lost"}
          /\ PrintT(<<"ACC", tid, viol>>)
          /\ l' = l + 1 /\ UNCHANGED <<vars, tid, viol>>
Dangling == /\ l = Len(Tr) + 1 /\ pc \notin {"Done", "Lost"} /\ ~ENABLED Main
            /\ PrintT(<<"ACC", tid, viol \cup {"Conf_Incomplete@" \o pc}>>)
            /\ l' = l + 1 /\ UNCHANGED <<vars, tid, viol>>

TNext == Main \/ Diverge \/ Finish \/ Dangling
TSpec == TInit /\ [][TNext]_tvars
=============================================================================
