SPECIFICATION Spec
CONSTANTS
  N = 2
  MaxCors = {1, 2, 3}
  MaxHist = 4
  AlphaSel = "a"
  MatrixPairs = 2
INVARIANT C10_Bounded
INVARIANT C10_Curvature
INVARIANT MatrixClaims
INVARIANT C06_RestoreIsLastN
INVARIANT C13_FilterLaws
INVARIANT Dump
