SPECIFICATION Spec
CONSTANTS
  IPrints = {0, 1, 2, 3, 5, 7}
  MaxNit = 7
  IP99 = 7
INVARIANT Silent
INVARIANT OneLineAtEnd
INVARIANT ResultsCount
INVARIANT EveryIteration
INVARIANT NoDuplicate
INVARIANT IterCount
INVARIANT Emit
