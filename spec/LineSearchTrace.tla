--------------------------- MODULE LineSearchTrace ---------------------------
(* Trace validation of stand-alone calls of lbfgsb.linesearch.line_search.   *)
(* A trace is <<[e |-> "Begin", budget], [e |-> "Trial", fr, inbox]...,      *)
(*              [e |-> "End", ret, pos, leMax, isTrial]>>; ranks are dense   *)
(* ranks with the start value at rank `start` of the Begin event.            *)
EXTENDS LineSearch, Json, IOUtils, TLC

Traces == JsonDeserialize(IOEnv.TRACE_FILE)
VARIABLES tid, l, viol, start
tvars == <<vars, tid, l, viol, start>>
Tr == Traces[tid]
Ev == Tr[l]
More == l <= Len(Tr)

TInit == Init /\ tid \in 1..Len(Traces) /\ l = 1 /\ viol = {} /\ start = 0

TBegin == More /\ Ev.e = "Begin" /\ Begin(Ev.budget) /\ start' = Ev.start /\ l' = l + 1 /\ tid' = tid
          /\ viol' = viol
TTrial == More /\ Ev.e = "Trial" /\ Trial(Ev.fr, Ev.inbox) /\ l' = l + 1 /\ UNCHANGED <<tid, start>>
          /\ viol' = viol \cup (IF Ev.inbox THEN {} ELSE {"C11_TrialsInBox"})
                          \cup (IF Len(trials') <= budget THEN {} ELSE {"C11_Budget"})
TEnd == /\ More /\ Ev.e = "End"
        /\ End(Ev.ret, [pos |-> Ev.pos, leMax |-> Ev.leMax, isTrial |-> Ev.isTrial])
        /\ l' = l + 1 /\ UNCHANGED <<tid, start>>
        /\ viol' = viol
             \cup (IF Ev.ret > 0 => (Ev.isTrial /\ Ev.ret <= Len(trials) /\ trials[Ev.ret] < start)
                   THEN {} ELSE {"C11_Downhill"})
             \cup (IF Ev.ret > 0 => (Ev.pos /\ Ev.leMax) THEN {} ELSE {"C11_StepRange"})
Finish == /\ l = Len(Tr) + 1 /\ l' = l + 1
          /\ PrintT(<<"ACC", tid, IF pc = "done" THEN viol ELSE viol \cup {"Conf_Incomplete"}>>)
          /\ UNCHANGED <<vars, tid, viol, start>>
TNext == TBegin \/ TTrial \/ TEnd \/ Finish
TSpec == TInit /\ [][TNext]_tvars
=============================================================================
