------------------------------ MODULE LineSearch ------------------------------
(***************************************************************************)
(* The line search as a sub-machine (linesearch.py:226-325), usable alone  *)
(* for lbfgsb.linesearch.line_search (C11) and mirrored inside Driver.     *)
(* dcsrch is a black box with the weak contract "after each trial it       *)
(* either asks for another trial or stops (converged / warning / error)";  *)
(* no assumption that convergence implies a lower value, because           *)
(* f0 + ftol*stp*phi'(0) can round to f0.                                  *)
(* Objective values are ranks: the start has rank Start; a trial is        *)
(* strictly lower iff its rank is smaller.                                 *)
(***************************************************************************)
EXTENDS Integers, Sequences, FiniteSets

CONSTANTS MaxBudget, Ranks, Start

VARIABLES pc, budget, trials, ret, obs
vars == <<pc, budget, trials, ret, obs>>

NoObs == [inbox |-> TRUE, pos |-> TRUE, leMax |-> TRUE, isTrial |-> TRUE]

Init == pc = "idle" /\ budget = 0 /\ trials = <<>> /\ ret = -1 /\ obs = NoObs

Begin(b) == /\ pc = "idle" /\ pc' = "search" /\ budget' = b
            /\ UNCHANGED <<trials, ret, obs>>
\* one evaluation of the objective (and gradient) at a trial point
Trial(fr, inbox) ==
  /\ pc = "search"
  /\ trials' = Append(trials, fr)
  /\ obs' = [obs EXCEPT !.inbox = @ /\ inbox]
  /\ UNCHANGED <<pc, budget, ret>>
\* the search ends: r = 0 for None, r = k for "the step of the k-th trial"
End(r, o) ==
  /\ pc = "search" /\ pc' = "done" /\ ret' = r
  /\ obs' = [obs EXCEPT !.pos = o.pos, !.leMax = o.leMax, !.isTrial = o.isTrial]
  /\ UNCHANGED <<budget, trials>>

\* ---- the mechanism (design): return the lowest trial if it is below the start, else None ----
Lowest == CHOOSE k \in DOMAIN trials : \A j \in DOMAIN trials : trials[k] <= trials[j]
DNext == \/ \E b \in 1..MaxBudget : Begin(b)
         \/ Len(trials) < budget /\ \E fr \in Ranks : Trial(fr, TRUE)
         \/ /\ pc = "search"           \* dcsrch stops (any time: convergence, warning, error) or the cap is hit
            /\ IF trials # <<>> /\ trials[Lowest] < Start
               THEN End(Lowest, NoObs) \/ End(0, NoObs)
               ELSE End(0, NoObs)
DSpec == Init /\ [][DNext]_vars

\* ---- C11 ----
C11_TrialsInBox == obs.inbox
C11_Budget == Len(trials) <= budget \/ pc = "idle"
C11_Downhill == pc = "done" /\ ret > 0 => obs.isTrial /\ ret <= Len(trials) /\ trials[ret] < Start
C11_StepRange == pc = "done" /\ ret > 0 => obs.pos /\ obs.leMax
InvTable == << <<"C11_TrialsInBox", C11_TrialsInBox>>, <<"C11_Budget", C11_Budget>>,
               <<"C11_Downhill", C11_Downhill>>, <<"C11_StepRange", C11_StepRange>> >>
Violated == {InvTable[i][1] : i \in {j \in DOMAIN InvTable : ~InvTable[j][2]}}
=============================================================================
