-------------------------------- MODULE Display --------------------------------
(***************************************************************************)
(* The display / logging plane of minimize_lbfgsb (base.py:147-312,        *)
(* main.py:358-360, 484, 638-651), beyond the 20 listed properties: which  *)
(* records the solver emits to the logger as a function of iprint and of   *)
(* the iteration count, as documented:                                     *)
(*   iprint < 0 (or no logger)  no output;                                 *)
(*   iprint = 0                 only one results line, at the end;         *)
(*   0 < iprint < 99            f and |proj g| at every iterate, a results *)
(*                              line every iprint iterations and at the    *)
(*                              end (once);                                *)
(*   iprint >= 99               a results line at every iteration.         *)
(* The run is abstracted to its sequence of completed iterations; the      *)
(* specification predicts the sequence of record kinds ("start", "iter",   *)
(* "results"); detailed kernel chatter (iprint >= 99) is not modelled.     *)
(* Design property: exactly one results line carries the final iteration   *)
(* count, whatever iprint >= 0 (no duplicate, none missing).               *)
(***************************************************************************)
EXTENDS Integers, Sequences, TLC

CONSTANTS IPrints, MaxNit, IP99   \* IP99: stand-in for "iprint >= 99" in the bounded model

VARIABLES ip, logger, nit, total, log, lastShown, pc
vars == <<ip, logger, nit, total, log, lastShown, pc>>

Active == logger /\ ip >= 0
Init == /\ ip \in IPrints /\ logger \in BOOLEAN /\ total \in 0..MaxNit
        /\ nit = 0 /\ log = <<>> /\ lastShown = -1 /\ pc = "start"

\* base.display_start (5 lines, one "start" record) and the display of iterate 0.
\* Deliberate deviation, named: DevStartBannerNeverShown - main.py:358-360 calls display_start without
\* handing it the logger, so the banner is never emitted whatever iprint (observed on the real code;
\* cosmetic, outside the listed properties, left as it is).
DevStartBannerNeverShown == TRUE
Start == /\ pc = "start" /\ pc' = "loop"
         /\ log' = (IF Active /\ ~DevStartBannerNeverShown THEN <<"start">> ELSE <<>>)
                   \o (IF logger /\ ip >= 1 THEN <<"iter">> ELSE <<>>)
         /\ UNCHANGED <<ip, logger, nit, total, lastShown>>
\* base.display_results(n, final)
Shows(n, final) == /\ Active
                   /\ IF ip = 0 THEN final
                      ELSE IF ip < IP99 THEN n % ip = 0
                      ELSE TRUE
\* one completed iteration: display_iter(nit + 1), display_results(nit + 1, not final)
Iterate == /\ pc = "loop" /\ nit < total
           /\ nit' = nit + 1
           /\ log' = log \o (IF logger /\ ip >= 1 THEN <<"iter">> ELSE <<>>)
                         \o (IF Shows(nit + 1, FALSE) THEN <<"results">> ELSE <<>>)
           /\ lastShown' = IF Shows(nit + 1, FALSE) THEN nit + 1 ELSE -1
           /\ UNCHANGED <<ip, logger, total, pc>>
\* main.py:647-651: final display unless the last iteration's results were displayed
Final == /\ pc = "loop" /\ nit = total /\ pc' = "done"
         /\ log' = log \o (IF lastShown = -1 /\ Shows(nit, TRUE) THEN <<"results">> ELSE <<>>)
         /\ lastShown' = IF lastShown = -1 /\ Shows(nit, TRUE) THEN nit ELSE lastShown
         /\ UNCHANGED <<ip, logger, nit, total>>
Next == Start \/ Iterate \/ Final
Spec == Init /\ [][Next]_vars

Count(k) == LET RECURSIVE C(_) C(i) == IF i = 0 THEN 0 ELSE C(i - 1) + (IF log[i] = k THEN 1 ELSE 0) IN C(Len(log))
\* documented behaviour
Silent == pc = "done" /\ ~Active => log = <<>>
OneLineAtEnd == pc = "done" /\ Active /\ ip = 0 => log = (IF DevStartBannerNeverShown THEN <<>> ELSE <<"start">>) \o <<"results">>
\* a results line every iprint iterations (and one for iteration 0 when nothing was iterated)
ResultsCount == pc = "done" /\ Active /\ ip > 0 /\ ip < IP99 =>
                  Count("results") = (total \div ip) + (IF total = 0 THEN 1 ELSE 0)
EveryIteration == pc = "done" /\ Active /\ ip >= IP99 => Count("results") = (IF total = 0 THEN 1 ELSE total)
\* no state is displayed twice
NoDuplicate == pc = "done" => Count("results") <= total + 1
Emit == pc = "done" => PrintT(<<"DISPLAY", ip, logger, total, log>>)
IterCount == pc = "done" /\ logger /\ ip >= 1 => Count("iter") = total + 1
=============================================================================
