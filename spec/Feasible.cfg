SPECIFICATION Spec
CONSTANT EMax = 2
INVARIANT SafeSitesFeasible
INVARIANT FixedUnmoved
