SPECIFICATION Spec
CONSTANTS
  N = 1
  Mems = {0, 1, 2, 3}
  ShardN = 1
  ShardK = 0
  KindNames = {"free", "lo", "hi", "box", "fix"}
  XSet = {0, 1, 2, 3}
  GSel = "full"
INVARIANT DesignClaimsHold
