SPECIFICATION Spec
CONSTANTS
  KA = 4
  KB = 4
  Mode = "nested"
INVARIANT Isolation
INVARIANT SharedUnchanged
INVARIANT Emit
