SPECIFICATION Spec
CONSTANTS
  KA = 4
  KB = 4
  Mode = "threads"
INVARIANT Isolation
INVARIANT SharedUnchanged
INVARIANT Emit
