SPECIFICATION DSpec
CONSTANTS
  MaxBudget = 4
  Ranks = {0, 1, 2}
  Start = 1
INVARIANT C11_TrialsInBox
INVARIANT C11_Budget
INVARIANT C11_Downhill
INVARIANT C11_StepRange
