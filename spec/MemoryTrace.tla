----------------------------- MODULE MemoryTrace -----------------------------
(***************************************************************************)
(* Trace validation of update sequences of the curvature memory on point   *)
(* ids (floats cannot enter TLC; what the specification needs about the    *)
(* numbers is carried as facts computed by the harness from the real       *)
(* arrays: curv = s.y > eps*y.y for the candidate, allCurv for the stored  *)
(* pairs, and - from a dense reconstruction of the real compact matrices - *)
(* compact == BFGS recursion, SPD, secant).  The discipline itself         *)
(* (bounded, FIFO eviction, rejected update leaves everything untouched)   *)
(* is decided by TLC on the ids.                                           *)
(***************************************************************************)
EXTENDS Integers, Sequences, FiniteSets, TLC, Json, IOUtils

Traces == JsonDeserialize(IOEnv.TRACE_FILE)
VARIABLES tid, l, mem, maxcor, viol
vars == <<tid, l, mem, maxcor, viol>>
Tr == Traces[tid]
Ev == Tr[l]
LastN(s, k) == IF Len(s) <= k THEN s ELSE SubSeq(s, Len(s) - k + 1, Len(s))
Flag(name, ok) == IF ok THEN {} ELSE {name}

Init == tid \in 1..Len(Traces) /\ l = 1 /\ mem = <<>> /\ maxcor = 0 /\ viol = {}
Begin == l <= Len(Tr) /\ Ev.e = "Begin" /\ mem' = <<Ev.first>> /\ maxcor' = Ev.maxcor
         /\ l' = l + 1 /\ UNCHANGED <<tid, viol>>
Upd == /\ l <= Len(Tr) /\ Ev.e = "MemUpd"
       /\ LET acc == Ev.ids # Ev.before IN
          viol' = viol
             \cup Flag("C10_BeforeIsMem", Ev.before = mem)
             \cup Flag("C10_RejectUntouched", acc \/ (Ev.ids = mem /\ Ev.matsSame))
             \cup Flag("C10_FIFO", ~acc \/ Ev.ids = LastN(Append(mem, Ev.cand), maxcor + 1))
             \cup Flag("C10_CurvIffAccepted", acc = Ev.curv)
             \cup Flag("C10_Bounded", Len(Ev.ids) <= maxcor + 1)
             \cup Flag("C10_AllCurv", Ev.allCurv)
             \cup Flag("C10_CompactIsDense", Ev.compact)
             \cup Flag("C10_SPD", Ev.spd)
             \cup Flag("C10_Secant", Ev.secant)
             \cup Flag("C10_ThetaNewest", Ev.theta)
       /\ mem' = Ev.ids /\ l' = l + 1 /\ UNCHANGED <<tid, maxcor>>
Finish == l = Len(Tr) + 1 /\ l' = l + 1 /\ PrintT(<<"ACC", tid, viol>>) /\ UNCHANGED <<tid, mem, maxcor, viol>>
Next == Begin \/ Upd \/ Finish
Spec == Init /\ [][Next]_vars
=============================================================================
