SPECIFICATION TSpec
CONSTANTS
  MaxRank = 0
  MaxChain = 0
