SPECIFICATION TSpec
CONSTANTS
  MaxRank = 0
  Variant = "none"
  MaxChain = 0
