SPECIFICATION LSpec
CONSTANTS
  MaxRank = 2
  Variant = "none"
  MaxChain = 0
  MaxIters = {4}
  MaxFuns = {8}
  MaxLss = {1, 2}
  MaxCors = {1, 2}
  TargetKinds = {"none"}
  GtolKinds = {"float"}
  CbStops = {0}
  Upds = {"none"}
  Scalers = {FALSE}
  Envs = {"convex"}
  Faults = FALSE
INVARIANT C01_NoAbnormal
INVARIANT C01_EndsStationary
INVARIANT I_C03_Monotone
INVARIANT I_C04_Documented
PROPERTY C01_Live
