SPECIFICATION Spec
CONSTANT EMax = 2
INVARIANT Raw_MaxStepTrial_Feasible
INVARIANT Raw_UnitStep_Feasible
INVARIANT Raw_SubspaceTruncate_Feasible
