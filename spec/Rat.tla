--------------------------------- MODULE Rat ---------------------------------
(***************************************************************************)
(* Exact rational arithmetic for TLC: a rational is a normalised pair      *)
(* <<num, den>> with den > 0 and gcd(|num|, den) = 1, so that equality of  *)
(* rationals is structural equality.  TLC integers are 32-bit and TLC      *)
(* raises on overflow, so an overflow aborts the run (machinery failure)   *)
(* instead of silently producing a wrong value.                            *)
(***************************************************************************)
EXTENDS Integers

RECURSIVE GCD(_, _)
GCD(a, b) == IF b = 0 THEN a ELSE GCD(b, a % b)
Abs(a) == IF a < 0 THEN -a ELSE a

Norm(n, d) ==   \* d # 0
  LET s == IF d < 0 THEN -1 ELSE 1
      g == GCD(Abs(n), Abs(d))
  IN IF n = 0 THEN <<0, 1>> ELSE <<(s * n) \div g, (s * d) \div g>>

R(i) == <<i, 1>>
Zero == <<0, 1>>
One == <<1, 1>>
IsRat(q) == q[2] > 0

\* Arguments are bound once (TLC re-evaluates an argument expression at every reference).
Pick(S) == CHOOSE r \in S : TRUE
\* denominators are combined through their gcd: keeps intermediates small (32-bit integers)
RAdd(p0, q0) == Pick({ LET g == GCD(p[2], q[2]) IN Norm(p[1] * (q[2] \div g) + q[1] * (p[2] \div g), (p[2] \div g) * q[2])
                       : p \in {p0}, q \in {q0} })
RSub(p0, q0) == Pick({ LET g == GCD(p[2], q[2]) IN Norm(p[1] * (q[2] \div g) - q[1] * (p[2] \div g), (p[2] \div g) * q[2])
                       : p \in {p0}, q \in {q0} })
RMul(p0, q0) ==     \* cross-cancel first: keeps intermediates small
  Pick({ LET g1 == GCD(Abs(p[1]), q[2])
             g2 == GCD(Abs(q[1]), p[2])
             a == IF g1 = 0 THEN 1 ELSE g1
             b == IF g2 = 0 THEN 1 ELSE g2
         IN Norm((p[1] \div a) * (q[1] \div b), (p[2] \div b) * (q[2] \div a))
         : p \in {p0}, q \in {q0} })
RNeg(p0) == Pick({ <<-p[1], p[2]>> : p \in {p0} })
RInv(p0) == Pick({ Norm(p[2], p[1]) : p \in {p0} })            \* p # 0
RDiv(p, q) == RMul(p, RInv(q))         \* q # 0
RLt(p0, q0) == \A p \in {p0}, q \in {q0} : LET g == GCD(p[2], q[2]) IN p[1] * (q[2] \div g) < q[1] * (p[2] \div g)
RLe(p0, q0) == \A p \in {p0}, q \in {q0} : LET g == GCD(p[2], q[2]) IN p[1] * (q[2] \div g) <= q[1] * (p[2] \div g)
RSign(p0) == Pick({ IF p[1] > 0 THEN 1 ELSE IF p[1] < 0 THEN -1 ELSE 0 : p \in {p0} })
RMin(p0, q0) == Pick({ IF RLe(p, q) THEN p ELSE q : p \in {p0}, q \in {q0} })
RMax(p0, q0) == Pick({ IF RLe(p, q) THEN q ELSE p : p \in {p0}, q \in {q0} })
RAbs(p0) == Pick({ <<Abs(p[1]), p[2]>> : p \in {p0} })
=============================================================================
