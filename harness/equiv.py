"""Two-run relations (Equiv.tla): merge two evaluation logs into one trace of facts."""
from __future__ import annotations

import numpy as np


class EvalLog:
    """Wraps an objective/gradient pair and records every point it is evaluated at."""

    def __init__(self, fun, grad=None, fscale=1.0):
        self.f, self.g, self.s = fun, grad, fscale
        self.pts: list[tuple[str, np.ndarray]] = []

    def fun(self, x, *a):
        self.pts.append(("f", np.array(x, dtype=float, copy=True)))
        return self.s * self.f(x)

    def grad(self, x, *a):
        self.pts.append(("g", np.array(x, dtype=float, copy=True)))
        return self.s * np.asarray(self.g(x), float)


def same_pt(a, b, exact, rtol=1e-7):
    if a[0] != b[0]:
        return False
    if exact:
        return bool(np.array_equal(a[1], b[1]))
    return bool(np.allclose(a[1], b[1], rtol=rtol, atol=rtol * 1e-2))


def merge(prop, exact, log_a, log_b, result_fields: dict | None, excuses: dict | None = None, limit=None, rtol=1e-7):
    """excuses: {position: ("Deviation", kind) | ("Roundoff",)} inserted before that position."""
    ev = [{"e": "Mode", "prop": prop, "exact": bool(exact)}]
    na, nb = len(log_a), len(log_b)
    n = min(na, nb)
    if limit is not None:
        n = min(n, limit)
    excuses = excuses or {}
    for k in range(n):
        if k in excuses:
            x = excuses[k]
            ev.append({"e": x[0], "kind": x[1] if len(x) > 1 else ""})
        ev.append({"e": "Step", "same": same_pt(log_a[k], log_b[k], exact, rtol)})
    if limit is None or min(na, nb) < limit:
        if na != nb:
            if max(na, nb) in excuses or n in excuses:
                x = excuses.get(n, excuses.get(max(na, nb)))
                ev.append({"e": x[0], "kind": x[1] if len(x) > 1 else ""})
            ev.append({"e": "Extra", "who": "A" if na > nb else "B"})
    if result_fields is not None:
        ev.append({"e": "Result", "fields": {k: bool(v) for k, v in result_fields.items()}})
    return ev


def strip_cached(pts, x):
    """Log of a restarted run without its leading evaluations at the checkpoint's own point x: when the algorithm asks
    for the value or gradient at the current iterate (a zero-length trial step), the uninterrupted run is served from
    the wrapper's cache (no user call) whereas the restarted run, whose wrapper is new, evaluates."""
    k = 0
    xb = np.asarray(x, float)
    while k < len(pts) and np.array_equal(np.asarray(pts[k][1], float), xb):
        k += 1
    return pts[k:]


def result_fields(ra, rb, exact=True, rtol=1e-7, pairs=True):
    """Field-by-field comparison of two OptimizeResults."""
    def eq(a, b):
        a, b = np.asarray(a, float), np.asarray(b, float)
        if a.shape != b.shape:
            return False
        return bool(np.array_equal(a, b)) if exact else bool(np.allclose(a, b, rtol=rtol, atol=rtol * 1e-3))

    f = {"x": eq(ra.x, rb.x), "fun": eq(ra.fun, rb.fun), "jac": eq(ra.jac, rb.jac),
         "nfev": ra.nfev == rb.nfev, "njev": ra.njev == rb.njev, "nit": ra.nit == rb.nit,
         "message": ra.message == rb.message, "success": ra.success == rb.success, "status": ra.status == rb.status}
    if pairs:
        f["sk"] = eq(ra.hess_inv.sk, rb.hess_inv.sk)
        f["yk"] = eq(ra.hess_inv.yk, rb.hess_inv.yk)
    return f
