"""Run specifications -> real runs -> abstract traces (in parallel, deterministic).

A run spec is a plain dict (JSON-able), so a replay file re-creates the run exactly:
  {"family", "n", "pseed", "kwargs", "jac", "cb", "upd", "scaler", "ftarget", "gtol",
   "chain": [ {kwargs overrides for restart i}, ... ], "fault": [kind, index, exctype] }
"""
from __future__ import annotations

import multiprocessing as mp
import os

import numpy as np

from harness import problems
from harness.common import NCPU
from harness.observe import InjectedFault, Observer, finalize


class Scripted:
    """Scripted objective (DESIGN 3.1 C): the k-th NEW point at which the solver asks for a value or a
    gradient gets the k-th letter (value, slope factor) of the script; values are memoised by the bytes
    of x, so this is a function of x (any finite set of values/gradients at distinct points is the
    restriction of a smooth function).  After the script: a benign tail (lower value, flat slope)."""

    def __init__(self, script, n, g0=None, start_value=10.0):
        self.start_value = float(start_value)
        self.script = [tuple(l) for l in script]
        self.memo = {}
        self.g0 = np.array(g0 if g0 is not None else [1.0, -2.0, 0.5, 1.5][:n], float)
        self.k = 0
        self.tail = 0

    def _at(self, x):
        key = np.ascontiguousarray(np.asarray(x, float)).tobytes()
        v = self.memo.get(key)
        if v is None:
            if not self.memo:
                v = (self.start_value, 1.0)           # the start point
            elif self.k < len(self.script):
                v = self.script[self.k]
                self.k += 1
            else:
                self.tail += 1
                # strictly lower, almost flat (accepted at once), gradient shrinking: positive curvature
                v = (3.0 - 0.25 * self.tail, 0.05 * 0.6 ** self.tail)
            self.memo[key] = v
        return v

    def fun(self, x):
        return float(self._at(x)[0])

    def grad(self, x):
        return self._at(x)[1] * self.g0


def make_problem(spec):
    if spec["family"] == "scripted":
        n = spec["n"]
        sc = Scripted(spec["script"], n, start_value=spec.get("start_value", 10.0))
        if spec.get("nobox"):
            lb, ub = np.full(n, -np.inf), np.full(n, np.inf)
        else:
            lb, ub = np.full(n, -50.0), np.full(n, 50.0)
        return problems.Problem("scripted", n, sc.fun, sc.grad, lb, ub, np.zeros(n), False, {"script": spec["script"]})
    rng = np.random.default_rng([spec["pseed"], 7])
    p = problems.gen(rng, spec["family"], spec["n"], box_kinds=spec.get("box_kinds"),
                     start=spec.get("start"), cond=spec.get("cond"), box_spread=spec.get("box_spread"))
    if spec.get("nobox"):
        p.lb[:] = -np.inf
        p.ub[:] = np.inf
    if spec.get("far_start"):
        # start far from the solution (|x0| >> |x*|): lower bounds removed, start well below the upper bounds
        p.lb[:] = -np.inf
        fixed = ~np.isfinite(p.ub)
        p.x0 = np.where(fixed, p.x0, p.ub) - float(spec["far_start"]) * (0.5 + rng.random(p.n))
    if spec.get("shift"):
        # the same problem translated far from the origin: x -> x + shift (boxes, start and minimiser move together)
        sh = float(spec["shift"])
        f0_, g0_ = p.fun, p.grad
        p.fun = lambda x, f0_=f0_, sh=sh: f0_(x - sh)
        p.grad = lambda x, g0_=g0_, sh=sh: g0_(x - sh)
        p.lb, p.ub, p.x0 = p.lb + sh, p.ub + sh, p.x0 + sh
    if spec.get("fscale"):
        # the same problem in other units of the objective (values and gradients multiplied by a power of two: exact)
        k = float(spec["fscale"])
        f_, g_ = p.fun, p.grad
        p.fun = lambda x, f_=f_, k=k: k * f_(x)
        p.grad = lambda x, g_=g_, k=k: k * np.asarray(g_(x), float)
    return p


def _ref_values(p):
    """f(x0) and an estimate of the optimal value (SciPy's L-BFGS-B; only used to place targets)."""
    from scipy.optimize import minimize

    f0 = float(p.fun(p.x0))
    try:
        r = minimize(p.fun, p.x0, jac=p.grad, bounds=list(zip(p.lb, p.ub)), method="L-BFGS-B",
                     options={"maxiter": 200})
        fopt = float(r.fun)
    except Exception:  # noqa: BLE001
        fopt = f0 - 1.0
    return f0, min(fopt, f0)


def _scaler(kind):
    if kind is None:
        return None
    if kind == "unit":
        import lbfgsb

        return lbfgsb.get_gradient_projection_unit_scaling
    s = float(kind)
    return lambda x, g, lb, ub: s


class InjectedBase(BaseException):
    """A fault that is not an `Exception` (like KeyboardInterrupt / SystemExit): nothing may catch and convert it."""


def _update_fn(kind):
    """Update functions for C13: rewrite the stored gradients (objective redefinition)."""
    if kind in ("none", "ident"):
        return None
    if kind == "rescale":
        def upd(x, f0, f0_old, grad, X, G, c=[1.0]):
            return f0, f0_old, grad, G
        return upd
    if kind == "rewrite":
        # an arbitrary redefinition at the FIRST call (the one made before iterating): gradient and stored gradients
        # rewritten affinely; later calls hand everything back unchanged
        from collections import deque
        n = [0]

        def upd(x, f0, f0_old, grad, X, G):
            n[0] += 1
            if n[0] == 1:
                return f0, f0_old, 1.5 * np.asarray(grad, float) + 0.25, deque(1.5 * np.asarray(g, float) + 0.25 for g in G)
            return f0, f0_old, grad, G
        return upd
    raise ValueError(kind)


def execute(spec, want_obs=False):
    """Run one spec (a call and its restarts). Returns dict(trace, results...)."""
    p = make_problem(spec)
    jac = spec.get("jac", "callable")
    obs = Observer(p.fun, p.grad if jac == "callable" else (None if jac == "none" else jac), p.lb, p.ub)
    if jac == "none":
        obs.jac_mode = "none"
    obs.mutate_args = bool(spec.get("mutate_args"))
    kw = dict(spec.get("kwargs", {}))
    ft = spec.get("ftarget")
    ftarget = None
    if ft is not None:
        f0, fopt = _ref_values(p)
        val = f0 + ft[1] * max(f0 - fopt, 1e-3 * (1.0 + abs(f0)))
        # ft[1] = +0.5: above f(x0), met at once; -0.3: 30% of the way to the optimum; -2: unreachable
        ftarget = (lambda v=val: v) if ft[0] == "call" else val
    if spec.get("ftarget_abs") is not None:      # absolute target (behaviours sampled from the design model)
        kind, val = spec["ftarget_abs"]
        ftarget = (lambda v=val: v) if kind == "call" else val
    gt = spec.get("gtol", ["float", 1e-5])
    gtol = (lambda v=gt[1]: v) if gt[0] == "call" else gt[1]
    cb = spec.get("cb")
    fault = None
    if spec.get("fault"):
        kind, idx, et = spec["fault"]
        exc = {"InjectedFault": InjectedFault, "TypeError": TypeError, "IndexError": IndexError,
               "ValueError": ValueError, "ZeroDivisionError": ZeroDivisionError,
               "KeyError": KeyError, "StopIteration": StopIteration, "OverflowError": OverflowError,
               "RuntimeError": RuntimeError, "AssertionError": AssertionError, "LookupError": LookupError,
               "InjectedBase": InjectedBase}[et](f"injected {kind}#{idx}")
        fault = (kind, idx, exc)
    results = []
    x0 = p.x0
    ck = None
    calls = [dict()] + list(spec.get("chain", []))
    err = None
    for ci, over in enumerate(calls):
        k2 = dict(kw)
        k2.update(over)
        res, err = obs.call(x0=x0, bounds=p.bounds, kwargs=k2, with_cb=cb is not None,
                            cb_stop_at=(cb if isinstance(cb, int) else None),
                            upd=spec.get("upd", "none"), upd_fn=_update_fn(spec.get("upd", "none")),
                            scaler=_scaler(spec.get("scaler")), ftarget=ftarget, gtol=gtol,
                            checkpoint=ck, fault=fault if ci == spec.get("fault_call", 0) else None)
        results.append(res)
        if err is not None or res is None:
            break
        ck, x0 = res, res.x
    # values RETURNED BY THE USER's callables only: a finite-difference gradient is computed by the library, and a NaN in it
    # with finite objective values is the library's doing (before fix 845aa87: variables with lb == ub)
    nonfinite = any(not np.isfinite(v) for v in obs.fval.values()) or \
        (obs.jac_raw is not None and any(not np.all(np.isfinite(g)) for g in obs.gval.values()))
    out = {"trace": finalize(obs), "spec": spec, "n_events": len(obs.events), "nonfinite": bool(nonfinite),
           "err": repr(err) if err is not None else None,
           "msgs": [r.message if r is not None else None for r in results],
           "calls": dict(obs.calls)}
    if want_obs:
        out["obs"] = obs
        out["results"] = results
        out["problem"] = p
    return out


def _worker(spec):
    os.environ.setdefault("OMP_NUM_THREADS", "1")
    import warnings

    warnings.simplefilter("ignore")
    np.seterr(all="ignore")
    try:
        return execute(spec)
    except Exception as ex:  # noqa: BLE001
        import traceback

        return {"trace": None, "spec": spec, "harness_error": traceback.format_exc(), "err": repr(ex)}


def run_all(specs, procs=None):
    procs = procs or NCPU
    if len(specs) < 4:
        return [_worker(s) for s in specs]
    with mp.get_context("fork").Pool(procs) as pool:
        return pool.map(_worker, specs, chunksize=max(1, len(specs) // (procs * 8)))


# ----------------------------------------------------------------------- spec generators
VALUES = [4.0, 8.0, 10.0, 12.0, 15.0]      # the start value is 10.0
SLOPES = [1.0, 0.05, -0.5]                  # still steeply descending / almost flat / ascending


def scripted_failure_specs():
    """Accepted steps, then a line search whose trials are all worse (non-fatal failure: memory reset),
    then more than maxcor accepted steps; and the fatal variant (failure with an empty memory)."""
    out = []
    acc, hi = [6.0, 0.05], [15.0, -0.5]
    for a in (0, 1, 2, 3):
        for ml in (1, 2, 3):
            for mc in (1, 2, 3):
                for ups in (0, 1):
                    script = [[9.0 - 0.5 * k, 0.5 * 0.6 ** k] for k in range(a)] + [hi] * ml + ([[14.0, -0.5]] * ml if ups else [])
                    out.append({"family": "scripted", "n": 2, "pseed": 0, "script": script, "nobox": bool((a + ml) % 2),
                                "cb": "never" if mc % 2 else None,
                                "kwargs": {"maxiter": a + 2 + mc + 3, "maxfun": 200, "maxls": ml, "maxcor": mc, "ftol": 0.0}})
    for o in out:
        if o["cb"] is None:
            del o["cb"]
    return out


def scripted_specs(rng, exhaustive_len=2, n_random=200, maxls_set=(1, 2, 3, 4, 20)):
    """Scripts over the alphabet VALUES x SLOPES: exhaustive up to a length, random longer ones."""
    import itertools

    letters = [(v, sl) for v in VALUES for sl in SLOPES]
    out = []
    for L in range(1, exhaustive_len + 1):
        for sc in itertools.product(letters, repeat=L):
            for ml in maxls_set:
                out.append({"family": "scripted", "n": 2, "pseed": 0, "script": [list(l) for l in sc],
                            "nobox": bool(len(out) % 2),
                            "kwargs": {"maxiter": 3, "maxfun": int(rng.choice([2, 3, 4, 6, 50])), "maxls": int(ml),
                                       "maxcor": 2, "ftol": float(rng.choice([0.0, 1e-3]))}})
    for _ in range(n_random):
        L = int(rng.integers(3, 9))
        sc = [list(letters[int(rng.integers(len(letters)))]) for _ in range(L)]
        out.append({"family": "scripted", "n": int(rng.integers(1, 4)), "pseed": 0, "script": sc, "nobox": bool(rng.random() < 0.5),
                    "kwargs": {"maxiter": int(rng.integers(1, 6)), "maxfun": int(rng.choice([2, 3, 5, 8, 50])),
                               "maxls": int(rng.choice([1, 2, 3, 4, 5, 20])), "maxcor": int(rng.choice([1, 3])),
                               "ftol": float(rng.choice([0.0, 1e-3]))}})
    return out + scripted_failure_specs()

def rand_spec(rng, families, *, nmax=6, small_budgets=True, jacs=("callable",), allow_cb=True,
              allow_target=True, allow_chain=False, allow_gcall=True):
    fam = families[int(rng.integers(len(families)))]
    n = int(rng.integers(2, nmax + 1)) if fam in ("rosenbrock", "beale") else int(rng.integers(1, nmax + 1))
    kw = {"maxcor": int(rng.choice([1, 2, 3, 5, 10])),
          "ftol": float(rng.choice([0.0, 0.0, 1e-9, 1e-5, 1e-2]))}
    if small_budgets:
        kw["maxiter"] = int(rng.choice([0, 1, 2, 3, 5, 8, 15, 40]))
        kw["maxfun"] = int(rng.choice([1, 2, 3, 4, 6, 10, 25, 200]))
        kw["maxls"] = int(rng.choice([1, 2, 3, 5, 20]))
    else:
        kw["maxiter"] = 300
        kw["maxfun"] = 5000
    if rng.random() < 0.15:
        kw["max_steplength"] = float(rng.choice([0.05, 0.3, 0.9, 3.0]))     # the user's cap on the step length
    spec = {"family": fam, "n": n, "pseed": int(rng.integers(1 << 30)), "kwargs": kw,
            "jac": str(rng.choice(list(jacs)))}
    # (finite-difference modes get degenerate sides lb == ub like every other mode since fix 845aa87: before it the
    # derivative along a fixed variable came out as 0/0 = NaN and the run returned the start point with message 'START')
    if allow_cb and rng.random() < 0.5:
        spec["cb"] = [True, 1, 2, 3][int(rng.integers(4))]
        if spec["cb"] is True:
            spec["cb"] = "never"
    if allow_target and rng.random() < 0.4:
        spec["ftarget"] = [["float", "call"][int(rng.integers(2))], float(rng.choice([0.5, -0.3, -0.7, -2.0]))]
    if allow_gcall:
        spec["gtol"] = [["float", "call"][int(rng.random() < 0.3)], float(rng.choice([1e-5, 1e-8, 1e-2, 0.5]))]
    if allow_chain and rng.random() < 0.6:
        nres = int(rng.integers(1, 4))
        ch = []
        for _ in range(nres):
            o = {"maxiter": int(rng.choice([0, 1, 2, 4, 8, 20, 60])),
                 "maxfun": int(rng.choice([1, 3, 6, 12, 30, 300]))}
            if rng.random() < 0.3:
                o["maxcor"] = int(rng.choice([1, 2, 3]))
            ch.append(o)
        spec["chain"] = ch
    return spec
