"""Common body of the checks decided on Driver.tla: design run (TLC, exhaustive within the
configuration lattice) + validation of traces of real runs against DriverTrace.tla."""
from __future__ import annotations

import json

from harness import corpus
from harness.common import Ctx, Machinery, tlc_design
from harness.tracecheck import validate


def design(ctx: Ctx, cfg: str | None = None, timeout=14400, wide=False, restart=False):
    """Design run of Driver.  quick: MCDriver_quick.cfg.  thorough: the wide configuration lattice (124 M states,
    ~15 min) for the checks whose point it is (wide=True), the restart-chain lattice (restart=True), else quick."""
    if cfg is None:
        if ctx.quick:
            cfg = "MCDriver_quick.cfg"
        elif wide:
            cfg = "MCDriver_thorough.cfg"
        elif restart:
            cfg = "MCDriver_thorough_restart.cfg"
        else:
            cfg = "MCDriver_quick.cfg"
    res = tlc_design(ctx, f"design:{cfg}", "MCDriver", cfg, timeout=timeout, heap="24g")
    if not ctx.quick and restart and cfg != "MCDriver_thorough_restart.cfg":
        tlc_design(ctx, "design:MCDriver_thorough_restart.cfg", "MCDriver", "MCDriver_thorough_restart.cfg", timeout=timeout, heap="24g")
    return res


def summarize(r):
    """A compact, readable sample of a run for the evidence file."""
    tr = r["trace"] or []
    return {"spec": r["spec"], "events": [e["e"] for e in tr][:60], "n_events": len(tr),
            "messages": r.get("msgs")}


def run_traces(ctx: Ctx, specs: list[dict], prefixes: tuple[str, ...], *, label="runs",
               accept_conf=False):
    """Execute specs on the real code, validate the traces, report clauses with `prefixes`."""
    runs = corpus.run_all(specs)
    bad = [r for r in runs if r.get("trace") is None]
    if bad:
        raise Machinery(f"harness error while executing a run spec:\n{bad[0].get('harness_error')}")
    # runs in which the user's objective or gradient produced inf / NaN are outside every property's quantifier
    # (objectives are finite on the box); they are counted, not judged
    skipped = [r for r in runs if r.get("nonfinite") and not r["spec"].get("fault")]
    if skipped:
        ctx.cov["runs_with_nonfinite_objective_values_not_judged"] = ctx.cov.get("runs_with_nonfinite_objective_values_not_judged", 0) + len(skipped)
        runs = [r for r in runs if not (r.get("nonfinite") and not r["spec"].get("fault"))]
    viols = validate(ctx, [r["trace"] for r in runs], name=label)
    ctx.add_counts(evaluations=len(runs))
    shapes = set()
    other = {}
    for r, v in zip(runs, viols):
        shapes.add(tuple(e["e"] for e in r["trace"]))
        conf = sorted(c for c in v if c.startswith("Conf_"))
        if conf and not accept_conf:
            # the specification cannot follow this trace: no verdict from it (exit 2 unless a violation is found)
            ctx.conf_failures.append(f"specification cannot follow a real trace ({conf}); spec={json.dumps(r['spec'])}")
        mine = sorted(c for c in v if c.startswith(prefixes))
        for c in v:
            if not c.startswith(prefixes) and not c.startswith("Conf_"):
                other[c] = other.get(c, 0) + 1
        for c in mine:
            ctx.violation(c, {"kind": "driver-trace", "spec": r["spec"], "clauses": mine,
                              "messages": r.get("msgs"), "err": r.get("err"),
                              "unanchored_restart": any(e.get("unanchoredRestart") for e in r["trace"]),
                              "summary": f"family={r['spec']['family']} n={r['spec']['n']} "
                                         f"kwargs={r['spec'].get('kwargs')} msgs={r.get('msgs')}",
                              "events": [e for e in r["trace"]][-12:]})
    ctx.add_counts(distinct_nontrivial=len(shapes))
    # what the real traces exercised (vacuity on the code side is visible here)
    ex = ctx.cov.setdefault("exercised_by_real_traces", {})
    for r in runs:
        tr = r["trace"]
        kinds = [e["e"] for e in tr]
        feats = {
            "restart_from_checkpoint": kinds.count("Start") > 1,
            "line_search_failed": any(e["e"] == "LSEnd" and e["ret"] == "none" for e in tr),
            "accepted_trial_not_last": any(e["e"] == "EvalF" and e.get("site") == "main" and i > 0 and tr[i - 1]["e"] == "LSEnd"
                                           for i, e in enumerate(tr)),
            "update_rejected": any(e["e"] == "MemUpd" and e["ids"] == e["before"] for e in tr),
            "memory_full_eviction": any(e["e"] == "MemUpd" and e["ids"] != e["before"] and len(e["ids"]) == len(e["before"]) for e in tr),
            "callback_stopped": any(e["e"] == "Callback" and e.get("ret") for e in tr),
            "finite_difference_gradient": "EvalS" in kinds,
            "fault_injected": any(e.get("exc") for e in tr),
            "kernel_calls_judged": any(e["e"] == "Cauchy" and e.get("judged") for e in tr),
        }
        for e in tr:
            if e["e"] == "Return":
                feats["message_" + str(e["msg"])] = True
        for k, v in feats.items():
            if v:
                ex[k] = ex.get(k, 0) + 1
    ctx.add_samples([summarize(r) for r in runs[:3]])
    if other:
        ctx.cov.setdefault("clauses_of_other_properties_seen", {})
        for k, n in other.items():
            ctx.cov["clauses_of_other_properties_seen"][k] = ctx.cov["clauses_of_other_properties_seen"].get(k, 0) + n
    return runs, viols


def replay(ctx: Ctx, path: str, prefixes: tuple[str, ...]) -> int:
    with open(path) as fh:
        rec = json.load(fh)
    runs, viols = run_traces(ctx, [rec["spec"]], prefixes, label="replay")
    print(json.dumps({"clauses": sorted(viols[0]), "messages": runs[0].get("msgs")}, indent=1))
    return ctx.finish("model_checking", "replay of one recorded run spec")
