"""Spec -> code for the solver state machine: behaviours sampled by TLC (`-simulate`) from the design model MCDriver
are turned into real runs - configuration from the behaviour's cfg, trial outcomes (objective ranks, projected-gradient
facts) realised by a scripted objective, callback stop index, callable stop criteria, target threshold, injected fault
at the call the behaviour faults at.  The real run cannot be forced to take the same internal decisions (dcsrch
decides); the TLC behaviour is the test purpose, the resulting real trace is validated against DriverTrace."""
from __future__ import annotations

import re
import shutil
import subprocess
from pathlib import Path

from harness.common import SPEC, TLA_CP, Ctx, Machinery, parse_tla_value

VAL = {0: 5.0, 1: 10.0, 2: 15.0, 3: 20.0}


def sample_behaviours(ctx: Ctx, num: int, seed: int, depth: int = 90, cfg: str = "MCDriver_quick.cfg"):
    d = ctx.tmp / "sim"
    d.mkdir(exist_ok=True)
    cmd = ["java", "-XX:+UseParallelGC", "-Xmx4g", f"-Djava.io.tmpdir={d}", "-cp", TLA_CP, "tlc2.TLC", "-metadir", str(d / "meta"),
           "-noGenerateSpecTE", "-workers", "1", "-deadlock", "-simulate", f"file={d}/tr,num={num}", "-depth", str(depth),
           "-seed", str(seed), "-config", str(SPEC / cfg), str(SPEC / "MCDriver.tla")]
    p = subprocess.run(cmd, cwd=d, capture_output=True, text=True, timeout=3600)
    if p.returncode != 0 and "Error" in p.stdout:
        raise Machinery("TLC simulation of MCDriver failed:\n" + p.stdout[-1500:])
    out = []
    for f in sorted(d.glob("tr_*")):
        txt = f.read_text()
        acts = re.findall(r"^\\\* <(\w+) ", txt, flags=re.M)
        states = []
        for blk in re.split(r"^STATE_\d+ == *$", txt, flags=re.M)[1:]:
            st = {}
            for m in re.finditer(r"^/\\ (\w+) = (.*?)(?=^/\\ |\Z)", blk, flags=re.M | re.S):
                if m.group(1) in ("cfg", "ls", "pc", "fault", "calls", "fx", "pg", "chain"):
                    val = re.split(r"\n\n|\n\\\*|\n====", m.group(2))[0]
                    try:
                        st[m.group(1)] = parse_tla_value(val.strip())
                    except Exception:  # noqa: BLE001
                        pass
            states.append(st)
        out.append({"actions": acts, "states": states})
    shutil.rmtree(d, ignore_errors=True)
    return out


def to_spec(beh):
    """Run spec realising the behaviour (None when it has nothing to realise: chain > 0, no Start)."""
    sts = beh["states"]
    if len(sts) < 3 or "cfg" not in sts[1]:
        return None
    cfg = sts[1]["cfg"]
    if cfg.get("maxfun", 0) == 0 or any(s.get("chain", 0) > 0 for s in sts):
        return None
    # letters: start value, then every trial in order of appearance
    letters = []
    fx0 = next((s["fx"] for s in sts if s.get("fx", -1) >= 0), 1)
    seen = 0
    for s in sts:
        tr = s.get("ls", {}).get("trials", [])
        if s.get("ls", {}).get("on") and len(tr) > seen:
            for t in tr[seen:]:
                letters.append([VAL[t["fr"]], 0.0 if t.get("pg") else (0.05 if t["fr"] < fx0 else -0.5)])
            seen = len(tr)
        if not s.get("ls", {}).get("on"):
            seen = 0
    spec = {"family": "scripted", "n": 2, "pseed": 0, "script": letters, "start_value": VAL[fx0], "nobox": False,
            "kwargs": {"maxiter": cfg["maxiter"], "maxfun": cfg["maxfun"], "maxls": cfg["maxls"], "maxcor": cfg["maxcor"],
                       "ftol": 0.0 if cfg["ftol0"] else 1e-3},
            "gtol": ["call" if cfg["gk"] == "call" else "float", 1e-5], "from_tlc_behaviour": beh["actions"][:60]}
    if cfg["tk"] != "none":
        # threshold between the value levels of ranks T and T+1 (absolute value, see corpus.execute)
        spec["ftarget_abs"] = [cfg["tk"], VAL[cfg["T"]] + 1.0]
    if cfg["cb"]:
        spec["cb"] = "never" if cfg["cbStop"] <= 1 else cfg["cbStop"] - 1
    if cfg["upd"] != "none":
        spec["upd"] = "ident"
    # fault: the behaviour raised in a callable of kind k after `calls` complete calls of that kind
    fs = next((s for s in sts if s.get("fault", "none") != "none"), None)
    if fs is not None:
        kind = fs["fault"]
        prev = sts[sts.index(fs) - 1]
        if kind in ("ftarget", "gtol", "scaler", "upd", "cb"):
            idx = prev.get("calls", {}).get(kind, 0) + 1
        else:
            idx = 1 + sum(1 for a in beh["actions"][:sts.index(fs)] if a in (("DEvalF0", "DTrialF", "DAccF") if kind == "fun" else ("DEvalG0", "DTrialG", "DAccG")))
        spec["fault"] = [kind, idx, "InjectedFault"]
    return spec
