"""./check entry point."""
from __future__ import annotations

import argparse
import importlib
import os
import sys
import traceback

from harness.common import Ctx, Machinery, sany_all


def main(argv=None) -> int:
    ap = argparse.ArgumentParser(prog="check")
    ap.add_argument("pid", nargs="?")
    ap.add_argument("--tier", default=os.environ.get("VERIF_TIER", "quick"))
    ap.add_argument("--seed", type=int, default=None)
    ap.add_argument("--replay", default=None)
    ap.add_argument("--setup", action="store_true")
    ap.add_argument("--selftest", action="store_true")
    a = ap.parse_args(argv)
    if a.setup:
        bad = sany_all()
        import compileall
        ok = compileall.compile_dir(os.path.dirname(__file__), quiet=1, legacy=False)
        return 0 if (bad == 0 and ok) else 2
    if a.selftest:
        from harness import selftest
        return selftest.main()
    if not a.pid:
        ap.error("property id required")
    seed = a.seed
    if seed is None:
        try:
            seed = int(os.environ.get("VERIF_SEED", "0"))
        except ValueError:
            seed = 0
    tier = a.tier if a.tier in ("quick", "thorough") else "quick"
    pid = a.pid.upper()
    try:
        mod = importlib.import_module(f"harness.checks.{pid.lower()}")
    except ModuleNotFoundError as e:
        print(f"no check for {pid}: {e}", file=sys.stderr)
        return 2
    ctx = Ctx(pid, tier, seed)
    try:
        if a.replay:
            # a replay never overwrites the evidence of the check nor the replay file it reads
            os.environ.setdefault("VERIF_EVIDENCE_DIR", str(ctx.tmp / "evidence"))
            ctx.file_tag = "replayed"
            return mod.replay(ctx, a.replay)
        return mod.run(ctx)
    except Machinery as e:
        print(f"MACHINERY FAILURE [{pid}]: {e}", file=sys.stderr)
        return 2
    except Exception:  # noqa: BLE001
        traceback.print_exc()
        print(f"MACHINERY FAILURE [{pid}]: unexpected exception in harness", file=sys.stderr)
        return 2


if __name__ == "__main__":
    sys.exit(main())
