"""Replay of Memory.tla states into the real memory routines, and dense reconstruction facts."""
from __future__ import annotations

import json
from collections import deque
from fractions import Fraction

import numpy as np

TOL = 1e-9


def dense_from_mats(mats, n):
    """theta*I - W * M * W^T with the real compact representation (bmv on the unit vectors)."""
    from lbfgsb.bfgsmats import bmv

    B = mats.theta * np.eye(n)
    if mats.use_factor:
        WT = mats.W.T
        MW = np.column_stack([bmv(mats.invMfactors, WT[:, i]) for i in range(n)])
        B = B - mats.W @ MW
    return B


def dense_bfgs(X, G):
    """Independent dense BFGS recursion (floats) from theta*I, theta = y.y/s.y of the newest pair."""
    n = len(X[0])
    if len(X) < 2:
        return np.eye(n)
    s, y = X[-1] - X[-2], G[-1] - G[-2]
    B = (y @ y) / (s @ y) * np.eye(n)
    for k in range(len(X) - 1):
        s, y = X[k + 1] - X[k], G[k + 1] - G[k]
        Bs = B @ s
        B = B - np.outer(Bs, Bs) / (s @ Bs) + np.outer(y, y) / (y @ s)
    return B


def matrix_facts(mats, X, G):
    try:
        return _matrix_facts(mats, X, G)
    except Exception:  # noqa: BLE001 - NaN/inf in the real matrices: every fact fails
        return {"compact": False, "spd": False, "secant": False, "theta": False}


def _matrix_facts(mats, X, G):
    n = len(X[0])
    if len(X) < 2:
        return {"compact": True, "spd": True, "secant": True, "theta": True}
    Bc = dense_from_mats(mats, n)
    Bd = dense_bfgs(list(X), list(G))
    scale = max(1.0, float(np.max(np.abs(Bd))))
    s, y = X[-1] - X[-2], G[-1] - G[-2]
    ev = np.linalg.eigvalsh(0.5 * (Bc + Bc.T))
    return {
        "compact": bool(np.allclose(Bc, Bd, rtol=1e-6, atol=1e-7 * scale)),
        "spd": bool(np.allclose(Bc, Bc.T, rtol=1e-8, atol=1e-9 * scale) and ev.min() > 0),
        "secant": bool(np.allclose(Bc @ s, y, rtol=1e-6, atol=1e-7 * max(1.0, float(np.max(np.abs(y)))))),
        "theta": bool(np.isclose(mats.theta, (y @ y) / (s @ y), rtol=1e-12)),
    }


def replay_record(rec):
    """Replay one emitted state of Memory.tla. Returns list of (clause, detail)."""
    try:
        return _replay_record(rec)
    except Exception as ex:  # noqa: BLE001  - an exception of the routine under test is a verdict, not a harness failure
        return [("C10_RoutineRaises", repr(ex)), ("C06_RoutineRaises", repr(ex)), ("C13_RoutineRaises", repr(ex)),
                ("C18_RoutineRaises", repr(ex))]


def _replay_record(rec):
    from scipy.optimize import LbfgsInvHessProduct, OptimizeResult

    from lbfgsb.bfgsmats import LBFGSB_MATRICES, make_X_and_G_respect_strong_wolfe, update_lbfgs_matrices
    from lbfgsb.main import initialize_X_and_G
    from lbfgsb.utils import extract_hess_inv_diag

    bad = []
    n, maxcor = rec["n"], rec["maxcor"]
    mats = LBFGSB_MATRICES(n)
    X, G = deque(), deque()
    for h in rec["hist"]:
        x, g = np.array(h["x"], float), np.array(h["g"], float)
        if h["op"] == "init":
            X.append(x)
            G.append(g)
        elif h["op"] == "cand":
            theta0, W0 = mats.theta, mats.W
            lx = len(X)
            before = [a.copy() for a in X]
            mats = update_lbfgs_matrices(x.copy(), g, X, G, maxcor, mats, False)
            if len(X) == lx and all(np.array_equal(a, b) for a, b in zip(before, X)):
                if mats.theta != theta0 or mats.W is not W0:
                    bad.append(("C10_RejectUntouched", "matrices changed by a rejected update"))
        else:  # reset, as main.py:563-568
            X = deque([X[-1]])
            G = deque([G[-1]])
            mats = LBFGSB_MATRICES(n)
    eX = [np.array(v, float) for v in rec["X"]]
    eG = [np.array(v, float) for v in rec["G"]]
    if len(X) != len(eX) or any(not np.array_equal(a, b) for a, b in zip(X, eX)) \
            or any(not np.array_equal(a, b) for a, b in zip(G, eG)):
        bad.append(("C10_Deques", {"X": [a.tolist() for a in X], "G": [a.tolist() for a in G]}))
        return bad
    if rec["B"]:
        Bexp = np.array([[float(Fraction(*q)) for q in row] for row in rec["B"]])
        # the matrices are those of the last *accepted* update: rebuild expectations only if the
        # last history entry did not reset
        if rec["hist"][-1]["op"] != "reset":
            Bc = dense_from_mats(mats, n)
            if not np.allclose(Bc, Bexp, rtol=1e-9, atol=1e-9):
                bad.append(("C10_CompactIsBFGS", {"B": Bc.tolist()}))
    # the same history on another scale (x and g multiplied by a power of two: every product, the curvature
    # test and theta = y.y/s.y are exactly covariant, B is invariant)
    for sig in (2.0 ** -30, 2.0 ** 20):
        m2 = LBFGSB_MATRICES(n)
        X2, G2 = deque(), deque()
        for h in rec["hist"]:
            x, g = sig * np.array(h["x"], float), sig * np.array(h["g"], float)
            if h["op"] == "init":
                X2.append(x)
                G2.append(g)
            elif h["op"] == "cand":
                m2 = update_lbfgs_matrices(x.copy(), g, X2, G2, maxcor, m2, False)
            else:
                X2, G2, m2 = deque([X2[-1]]), deque([G2[-1]]), LBFGSB_MATRICES(n)
        if len(X2) != len(eX) or any(not np.array_equal(a, sig * b) for a, b in zip(X2, eX)):
            bad.append(("C10_ScaleCovariant", {"scale": sig, "X": [a.tolist() for a in X2]}))
        elif rec["B"] and rec["hist"][-1]["op"] != "reset":
            Bc = dense_from_mats(m2, n)
            if not np.allclose(Bc, Bexp, rtol=1e-9, atol=1e-9):
                bad.append(("C10_ScaleCovariant", {"scale": sig, "B": Bc.tolist(), "expected": Bexp.tolist()}))
    sk = np.atleast_2d(np.diff(np.array(X), axis=0))
    yk = np.atleast_2d(np.diff(np.array(G), axis=0))
    if len(X) == 1:
        sk = sk.reshape(0, n)
        yk = yk.reshape(0, n)
    if sk.shape[0] != len(rec["sk"]) or (sk.size and not np.array_equal(sk, np.array(rec["sk"], float))):
        bad.append(("C18_Pairs", {"sk": sk.tolist()}))
    hinv = LbfgsInvHessProduct(sk, yk)
    if rec["hdiag"]:
        d = extract_hess_inv_diag(hinv)
        dexp = np.array([float(Fraction(*q)) for q in rec["hdiag"]])
        if not np.allclose(d, dexp, rtol=1e-9, atol=1e-12) or not np.allclose(d, np.diag(hinv.todense()), rtol=1e-12, atol=0):
            bad.append(("C18_Diag", {"diag": d.tolist(), "expected": dexp.tolist()}))
    # restore (C06 arithmetic): exact on integers
    ck = OptimizeResult(x=X[-1].copy(), jac=G[-1].copy(), hess_inv=hinv, nit=len(X) - 1, nfev=0, njev=0, fun=0.0)
    for mi, mc in enumerate(rec["_maxcors"]):
        X2, G2 = initialize_X_and_G(X[-1].copy(), ck, mc)
        ex = [np.array(v, float) for v in rec["restore"][mi]]
        eg = [np.array(v, float) for v in rec["restoreG"][mi]]
        if len(X2) != len(ex) or any(not np.array_equal(a, b) for a, b in zip(X2, ex)) \
                or any(not np.array_equal(a, b) for a, b in zip(G2, eg)):
            bad.append(("C06_Restore", {"maxcor": mc, "X": [a.tolist() for a in X2], "expected": rec["restore"][mi]}))
    # filter (C13)
    for f in rec["filt"]:
        Gr = deque(np.array(v, float) for v in f["g"])
        X2, G2 = make_X_and_G_respect_strong_wolfe(deque(a.copy() for a in X), Gr)
        exp = [eX[i - 1] for i in f["idx"]]
        if len(X2) != len(exp) or any(not np.array_equal(a, b) for a, b in zip(X2, exp)):
            bad.append(("C13_Filter", {"g": f["g"], "kept": [a.tolist() for a in X2], "expected_idx": f["idx"]}))
        # the pairs an operator built from the filtered sequences would carry (C18: each has s.y > 0)
        X2l, G2l = list(X2), list(G2)
        if any(not float((X2l[j + 1] - X2l[j]) @ (G2l[j + 1] - G2l[j])) > 0 for j in range(len(X2l) - 1)):
            bad.append(("C18_FilteredPairsPositive", {"g": f["g"], "kept": [a.tolist() for a in X2l]}))
    return bad


def _chunk_file(args):
    """Replay the records of one file; returns [(record, failures)] for the records with failures only."""
    import warnings

    warnings.simplefilter("ignore")
    np.seterr(all="ignore")
    path, maxcors = args
    out = []
    with open(path) as fh:
        for line in fh:
            r = json.loads(json.loads(line))
            r["_maxcors"] = maxcors
            bad = replay_record(r)
            if bad:
                out.append(({k: r[k] for k in ("hist", "maxcor", "X", "G")}, bad))
    return out


def _chunk(recs):
    import warnings

    warnings.simplefilter("ignore")
    np.seterr(all="ignore")
    return [replay_record(r) for r in recs]
