"""Exact-lattice kernels (DESIGN 3.1 A): TLC enumerates every structural pattern, checks the
design claims on the rational definitions and emits the expected results; every emitted input
is replayed into the real kernels (spec -> code)."""
from __future__ import annotations

import json
import os
from collections import deque
from concurrent.futures import ThreadPoolExecutor
from fractions import Fraction

import numpy as np

from harness.common import NCPU, Ctx, Machinery, run_tlc

TOL = 1e-9


FULL = {"kinds": ["free", "lo", "hi", "box", "fix"], "xs": [0, 1, 2, 3], "g": "full"}


def write_cfg(ctx: Ctx, n: int, mems, shard_n: int, shard_k: int, sub=None) -> str:
    sub = sub or FULL
    p = ctx.tmp / f"MCKernels_{n}_{shard_k}of{shard_n}.cfg"
    kinds = ", ".join(f'"{k}"' for k in sub["kinds"])
    with open(p, "w") as fh:
        fh.write("SPECIFICATION Spec\nCONSTANTS\n"
                 f"  N = {n}\n  Mems = {{{', '.join(map(str, mems))}}}\n"
                 f"  ShardN = {shard_n}\n  ShardK = {shard_k}\n"
                 f"  KindNames = {{{kinds}}}\n  XSet = {{{', '.join(map(str, sub['xs']))}}}\n"
                 f"  GSel = \"{sub['g']}\"\nINVARIANT DesignClaimsHold\n")
    return str(p)


def enumerate_lattice(ctx: Ctx, n: int, mems, shards: int | None = None, sub=None):
    """Run the design check over the lattice (sharded over processes) and collect the records."""
    shards = shards or (1 if n == 1 else NCPU)
    records: list[dict] = []

    def one(k):
        cfg = write_cfg(ctx, n, mems, shards, k, sub)
        return run_tlc(ctx, f"lattice n={n} shard {k}/{shards}", "MCKernels", cfg, workers=1,
                       timeout=10800, record=False, heap="3g")

    with ThreadPoolExecutor(max_workers=min(shards, NCPU)) as ex:
        outs = list(ex.map(one, range(shards)))
    agg = {"name": f"design:MCKernels n={n} mems={list(mems)}", "distinct": 0, "generated": 0, "wall_s": 0.0}
    for res in outs:
        if not res["ok"]:
            tail = "\n".join(l for l in res["out"].splitlines() if not l.startswith('"{'))[-3000:]
            raise Machinery(f"design run MCKernels n={n} failed - specification bug:\n{tail}")
        agg["distinct"] += res.get("distinct", 0)
        agg["generated"] += res.get("generated", 0)
        agg["wall_s"] = max(agg["wall_s"], res["wall_s"])
        for line in res["out"].splitlines():
            if line.startswith('"{'):
                records.append(json.loads(json.loads(line)))
    ctx.tlc_runs.append(agg)
    # every initial state emits exactly one record: exhaustive over the lattice is a checked statement
    if 2 * len(records) != agg["distinct"]:
        raise Machinery(f"lattice n={n}: {len(records)} records for {agg['distinct']} states")
    return records


def fr(q):
    return Fraction(q[0], q[1])


def bound(q, sign):
    return sign * np.inf if q[1] == 0 else float(Fraction(q[0], q[1]))


def real_mats(rec):
    """Build the limited-memory matrices with the real update routine from integer pairs."""
    from lbfgsb.bfgsmats import LBFGSB_MATRICES, update_lbfgs_matrices

    n = rec["n"]
    mats = LBFGSB_MATRICES(n)
    x = np.zeros(n)
    g = np.zeros(n)
    X, G = deque([x.copy()]), deque([g.copy()])
    for p in rec["pairs"]:
        x = x + np.array([float(fr(v)) for v in p["s"]])
        g = g + np.array([float(fr(v)) for v in p["y"]])
        mats = update_lbfgs_matrices(x.copy(), g.copy(), X, G, 10, mats, False)
    if len(X) != len(rec["pairs"]) + 1:
        raise Machinery("menu pair rejected by the real update routine")
    return mats


def close(v, q):
    e = float(q)
    return abs(v - e) <= TOL * (1.0 + abs(e))


def match_point(out, exp, pin, lb, ub):
    """exp: list of Fractions; pin: 1 = must sit exactly on the bound it reached."""
    for i, q in enumerate(exp):
        if pin is not None and pin[i] == 1:
            if out[i] != float(q):
                return False
        elif not close(out[i], q):
            return False
    return True


def check_cauchy(rec, mats):
    """Returns (verdict, detail): verdict in ok | knife | seqtie | bad:<what>."""
    from lbfgsb.cauchy import get_cauchy_point

    x = np.array(rec["x"], float)
    g = np.array(rec["g"], float)
    lb = np.array([bound(q, -1) for q in rec["lo"]])
    ub = np.array([bound(q, 1) for q in rec["hi"]])
    try:
        xcp, c = get_cauchy_point(x.copy(), g.copy(), lb, ub, mats, 1, -1, None)
    except Exception as ex:  # noqa: BLE001
        return "bad:raises", {"exc": repr(ex)}
    xcp = np.asarray(xcp, float)
    det = {"xcp": xcp.tolist(), "c": np.asarray(c).tolist()}
    if not (np.all(lb <= xcp) and np.all(xcp <= ub)):
        return "bad:infeasible", det
    exp = [fr(q) for q in rec["xcp"]]
    verdict = None
    if match_point(xcp, exp, rec["pin"], lb, ub):
        verdict = "ok"
    else:
        for alt in rec["knife"]:
            if match_point(xcp, [fr(q) for q in alt], None, lb, ub):
                verdict = "knife"
        if verdict is None:
            for alt in rec["seq"]:
                if match_point(xcp, [fr(q) for q in alt], None, lb, ub):
                    verdict = "seqtie"
        if verdict is None:
            # a point that matches numerically but is not pinned exactly
            if match_point(xcp, exp, None, lb, ub):
                return "bad:not-pinned", det
            return "bad:wrong-point", det
    if verdict in ("ok", "knife") and rec["pairs"]:
        # auxiliary vector c = W^T (xcp - x) whenever some variable is still free at the point
        free = [i for i in range(rec["n"]) if xcp[i] != lb[i] and xcp[i] != ub[i]]
        if free and verdict == "ok":
            cexp = [fr(q) for q in rec["c"]]
            if len(cexp) != len(c) or not all(close(float(c[k]), cexp[k]) for k in range(len(cexp))):
                return "bad:c-vector", det
    return verdict, det


def check_subspace(rec, mats):
    from lbfgsb.subspacemin import get_freev, subspace_minimization

    x = np.array(rec["x"], float)
    g = np.array(rec["g"], float)
    lb = np.array([bound(q, -1) for q in rec["lo"]])
    ub = np.array([bound(q, 1) for q in rec["hi"]])
    xc = np.array([float(fr(q)) for q in rec["xcp"]])
    for i, q in enumerate(rec["xcp"]):  # coordinates on a bound are exactly on it
        if rec["lo"][i][1] and fr(q) == fr(rec["lo"][i]):
            xc[i] = lb[i]
        if rec["hi"][i][1] and fr(q) == fr(rec["hi"][i]):
            xc[i] = ub[i]
    c = mats.W.T @ (xc - x)
    try:
        free_vars, Z, A = get_freev(xc, lb, ub, 1, None, -1, None)
        xbar = subspace_minimization(x, xc.copy(), free_vars, Z, A, c, g, lb, ub, mats)
    except Exception as ex:  # noqa: BLE001
        return "bad:raises", {"exc": repr(ex)}
    xbar = np.asarray(xbar, float).ravel()
    det = {"xbar": xbar.tolist(), "free": [int(i) for i in free_vars]}
    if sorted(int(i) + 1 for i in free_vars) != list(rec["free"]):
        return "bad:free-set", det
    if not (np.all(lb <= xbar) and np.all(xbar <= ub)):
        return "bad:infeasible", det
    for i in range(rec["n"]):
        if (i + 1) not in rec["free"] and xbar[i] != xc[i]:
            return "bad:active-moved", det
    exp = [fr(q) for q in rec["xbar"]]
    if not all(close(xbar[i], exp[i]) for i in range(rec["n"])):
        return "bad:wrong-point", det
    if not float(g @ (xbar - x)) < 0:
        return "bad:not-descent", det
    return "ok", det


def _replay_chunk(args):
    which, recs = args
    import warnings

    warnings.simplefilter("ignore")
    np.seterr(all="ignore")
    out = []
    cache = {}
    for rec in recs:
        key = (rec["n"], rec["mem"])
        if key not in cache:
            cache[key] = real_mats(rec)
        mats = cache[key]
        v, det = (check_cauchy if which == "cauchy" else check_subspace)(rec, mats)
        out.append((v, det))
    return out


def replay(records, which: str):
    import multiprocessing as mp

    chunks = [records[i::NCPU] for i in range(NCPU)]
    with mp.get_context("fork").Pool(NCPU) as pool:
        outs = pool.map(_replay_chunk, [(which, c) for c in chunks])
    res = [None] * len(records)
    for k, o in enumerate(outs):
        for j, v in enumerate(o):
            res[k + j * NCPU] = v
    return res


def slim(rec):
    return {k: rec[k] for k in ("n", "mem", "x", "g", "lo", "hi", "t", "xcp", "pin", "xbar", "free", "knife", "seq")}
