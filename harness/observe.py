"""Observation layer: run the real `minimize_lbfgsb` under harness-side interposition and
project what happened to an abstract event trace (DESIGN section 5).

Nothing in /repo is modified: user callables are wrapped, and a handful of module globals of
`lbfgsb.main` / `lbfgsb.scalar_function` are temporarily replaced by logging wrappers.

Points are identities (first-appearance index of the exact bytes of the float vector);
numbers become facts only in `finalize()` (exact float comparisons, no tolerances).
"""
from __future__ import annotations

import copy
import threading
from collections import deque
from contextlib import contextmanager

import numpy as np

import lbfgsb
import lbfgsb.main as M
import lbfgsb.scalar_function as SFM
from harness.common import Machinery

MSG = {
    "CONVERGENCE: NORM_OF_PROJECTED_GRADIENT_<=_PGTOL": "PGTOL",
    "CONVERGENCE: REL_REDUCTION_OF_F_<=_FTOL": "FTOL",
    "CONVERGENCE: F_<=_TARGET": "TARGET",
    "STOP: TOTAL NO. of ITERATIONS REACHED LIMIT": "MAXITER",
    "STOP: TOTAL NO. of f AND g EVALUATIONS EXCEEDS LIMIT": "MAXFUN",
    "STOP: USER CALLBACK": "CALLBACK",
    "ABNORMAL_TERMINATION_IN_LNSRCH": "ABNORMAL",
}

INTERPOSED = ("line_search", "update_lbfgs_matrices", "make_X_and_G_respect_strong_wolfe")
KERNELS = ("get_cauchy_point", "subspace_minimization")     # wrapped when present (kernel-level facts)


def ref_cauchy(x, g, lb, ub, B):
    """Reference generalized Cauchy point with the dense model (independent of the code under test):
    first local minimiser of the model along the projected steepest-descent path."""
    n = x.size
    t = np.full(n, np.inf)
    for i in range(n):
        if g[i] < 0 and np.isfinite(ub[i]):
            t[i] = (x[i] - ub[i]) / g[i]
        elif g[i] > 0 and np.isfinite(lb[i]):
            t[i] = (x[i] - lb[i]) / g[i]

    def path(tt):
        p = x - tt * g
        for i in range(n):
            if t[i] <= tt:
                p[i] = ub[i] if g[i] < 0 else lb[i]
        return p

    bps = sorted(set(v for v in t if np.isfinite(v) and v > 0))
    cur = 0.0
    k = 0
    while True:
        d = np.where(t <= cur, 0.0, -g)
        if not np.any(d):
            return cur, path(cur)
        z = path(cur) - x
        f1 = float(g @ d + d @ (B @ z))
        f2 = float(d @ (B @ d))
        if f1 >= 0:
            return cur, path(cur)
        dtm = -f1 / f2 if f2 > 0 else np.inf
        nxt = bps[k] if k < len(bps) else np.inf
        if cur + dtm < nxt:
            return cur + dtm, path(cur + dtm)
        cur = nxt
        k += 1


def ref_subspace(x, xc, g, lb, ub, B):
    """Reference box-truncated Newton point of the model on the variables free at xc."""
    free = np.nonzero((xc != ub) & (xc != lb))[0]
    if free.size == 0:
        return xc.copy(), free, 1.0
    r = (g + B @ (xc - x))[free]
    dh = -np.linalg.solve(B[np.ix_(free, free)], r)
    alpha = 1.0
    for k, i in enumerate(free):
        if dh[k] > 0 and np.isfinite(ub[i]):
            alpha = min(alpha, (ub[i] - xc[i]) / dh[k])
        elif dh[k] < 0 and np.isfinite(lb[i]):
            alpha = min(alpha, (lb[i] - xc[i]) / dh[k])
    xb = xc.copy()
    xb[free] = xc[free] + alpha * dh
    return xb, free, alpha


def model_value(x, g, B, p):
    z = p - x
    return float(g @ z + 0.5 * z @ (B @ z))

_patch_lock = threading.RLock()


def named_args(orig, a, k, spec):
    """Values of the arguments `spec` = {name: position in the pinned signature} of a call orig(*a, **k), found by
    name first and by position second, so that a refactoring that switches a call site between positional and keyword
    style, adds parameters or renames one is still observed. None when the call cannot be bound."""
    import inspect
    try:
        sig = inspect.signature(orig)
        ba = sig.bind(*a, **k)
        ba.apply_defaults()
    except (TypeError, ValueError):
        return None
    params = list(sig.parameters)
    out = {}
    for name, idx in spec.items():
        if name in ba.arguments:
            out[name] = ba.arguments[name]
        elif idx < len(params) and params[idx] in ba.arguments:
            out[name] = ba.arguments[params[idx]]
        else:
            return None
    return out


class InjectedFault(Exception):
    pass


def projgr(x, g, lb, ub):
    return float(np.max(np.abs(np.clip(x - g, lb, ub) - x)))


def max_step(x, d, lb, ub, cap, it):
    """Largest feasible step (mathematical definition, computed independently of the code)."""
    if it == 0:
        return 1.0
    best = cap
    for i in range(x.size):
        if d[i] > 0 and np.isfinite(ub[i]):
            best = min(best, (ub[i] - x[i]) / d[i])
        elif d[i] < 0 and np.isfinite(lb[i]):
            best = min(best, (lb[i] - x[i]) / d[i])
    return best


class Observer:
    """Observes a chain of calls (a first call and restarts) and records one event trace."""

    def __init__(self, fun, jac, lb, ub, *, eps_SY=2.2e-16):
        self.fun_raw = fun
        self.jac_raw = jac if callable(jac) else None
        self.jac_mode = jac if not callable(jac) else "callable"
        self.lb = np.asarray(lb, float)
        self.ub = np.asarray(ub, float)
        self.eps_SY = eps_SY
        self.mutate_args = False
        self.events: list[dict] = []
        self.pts: dict[bytes, int] = {}
        self.arr: list[np.ndarray] = [None]  # 1-based ids
        self.fval: dict[int, float] = {}  # raw user f at point id (latest)
        self.gval: dict[int, np.ndarray] = {}  # raw user g at point id (latest)
        self.site = ["main"]
        self.calls = {"fun": 0, "jac": 0, "cb": 0, "upd": 0, "scaler": 0, "ftarget": 0, "gtol": 0}
        self.fault = None  # (kind, index, exception instance)
        self.scale = 1.0
        self.extra_vals: list[float] = []
        self.cb_states: list[dict] = []
        self.in_stencil = 0
        self.nf_plain = 0  # objective calls that are not stencil points
        self.stencil_pts: list[int] = []

    # ------------------------------------------------------------------ registry
    def pid(self, x) -> int:
        a = np.ascontiguousarray(np.asarray(x, dtype=float))
        key = a.tobytes()
        i = self.pts.get(key)
        if i is None:
            i = len(self.arr)
            self.pts[key] = i
            self.arr.append(a.copy())
        return i

    def ev(self, e, **kw):
        d = {"e": e}
        d.update(kw)
        self.events.append(d)
        return d

    def _maybe_fault(self, kind):
        self.calls[kind] += 1
        if self.fault and self.fault[0] == kind and self.fault[1] == self.calls[kind]:
            return self.fault[2]
        return None

    # ------------------------------------------------------------------ user callables
    def w_fun(self):
        def fun(x, *args):
            p = self.pid(x)
            site = "st" if self.in_stencil else self.site[-1]
            exc = self._maybe_fault("fun")
            if exc is not None:
                self.ev("EvalF", pt=p, site=site, exc=True)
                raise exc
            v = self.fun_raw(x, *args)
            if self.mutate_args:
                # a user callable that overwrites the array it was handed (the wrapper's own comment allows it)
                try:
                    x[...] = 1.2345e30
                except (ValueError, TypeError):
                    pass
            if self.in_stencil:
                self.stencil_pts.append(p)
                self.ev("EvalS", pt=p, exc=False)
            else:
                self.nf_plain += 1
                self.fval[p] = float(v)
                self.ev("EvalF", pt=p, site=site, exc=False, _v=float(v))
            return v

        return fun

    def w_jac(self):
        def jac(x, *args):
            p = self.pid(x)
            exc = self._maybe_fault("jac")
            if exc is not None:
                self.ev("EvalG", pt=p, site=self.site[-1], exc=True, nst=0)
                raise exc
            g = self.jac_raw(x, *args)
            if self.mutate_args:
                try:
                    x[...] = -9.8765e30
                except (ValueError, TypeError):
                    pass
            self.gval[p] = np.array(g, dtype=float, copy=True)
            self.ev("EvalG", pt=p, site=self.site[-1], exc=False, nst=0)
            return g

        return jac

    # ------------------------------------------------------------------ interposition
    @contextmanager
    def interposed(self):
        import importlib

        # every interposed routine is wrapped where it is defined AND where lbfgsb.main holds an alias of it, so
        # that `from x import f` and `x.f(...)` call styles are both observed
        homes = {"line_search": "lbfgsb.linesearch", "update_lbfgs_matrices": "lbfgsb.bfgsmats",
                 "make_X_and_G_respect_strong_wolfe": "lbfgsb.bfgsmats", "get_cauchy_point": "lbfgsb.cauchy",
                 "subspace_minimization": "lbfgsb.subspacemin"}

        def sites(name):
            out = []
            for mod in (M, importlib.import_module(homes[name])):
                if hasattr(mod, name) and mod not in out:
                    out.append(mod)
            return out

        missing = [n for n in INTERPOSED if not sites(n)]
        if missing or not hasattr(SFM, "approx_derivative"):
            raise Machinery(f"interposition target missing: {missing}")
        with _patch_lock:
            saved = {n: getattr(sites(n)[-1], n) for n in INTERPOSED}
            saved_sites = {n: [(mod, getattr(mod, n)) for mod in sites(n)] for n in INTERPOSED + KERNELS if sites(n)}
            saved_ad = SFM.approx_derivative
            obs = self

            def line_search(*a, **k):
                na = named_args(saved["line_search"], a, k, {"x0": 0, "f0": 1, "g0": 2, "d": 3, "above_iter": 6,
                                                             "max_steplength_user": 7, "max_iter": 13})
                if na is None:
                    raise Machinery("line_search called with arguments the observer cannot bind")
                x0, f0, g0, d, above_iter = na["x0"], na["f0"], na["g0"], na["d"], na["above_iter"]
                max_steplength_user, max_iter = na["max_steplength_user"], na["max_iter"]
                x0c, dc = np.array(x0, copy=True), np.array(d, copy=True)
                e = obs.ev("LSBegin", pt=obs.pid(x0c), budget=int(max_iter), it0=bool(above_iter == 0),
                           descent=bool(np.dot(g0, d) < 0), _f0=float(f0))
                nf0 = obs.nf_plain
                obs.site.append("ls")
                try:
                    stp = saved["line_search"](*a, **k)
                except BaseException:
                    obs.site.pop()
                    obs.ev("LSEnd", ret="exc", pt=0, pos=True, leMax=True, evals=obs.nf_plain - nf0)
                    raise
                obs.site.pop()
                if stp is None:
                    obs.ev("LSEnd", ret="none", pt=e["pt"], pos=True, leMax=True,
                           evals=obs.nf_plain - nf0)
                else:
                    smax = max_step(x0c, dc, obs.lb, obs.ub, max_steplength_user, above_iter)
                    # the accepted point is the trial point of this search that realises the step
                    # (the code may project x0 + stp*d onto the box; any rounding of it is fine)
                    tgt = x0c + stp * dc
                    acc = obs.pid(np.clip(tgt, obs.lb, obs.ub))
                    best = None
                    for e2 in reversed(obs.events):
                        if e2 is e:
                            break
                        if e2["e"] == "EvalF" and e2.get("site") == "ls" and not e2["exc"]:
                            dist = float(np.max(np.abs(obs.arr[e2["pt"]] - tgt) / (1.0 + np.abs(tgt))))
                            if best is None or dist < best[0]:
                                best = (dist, e2["pt"])
                    if best is not None and best[0] <= 1e-12:
                        acc = best[1]
                    obs.ev("LSEnd", ret="step", pt=acc, pos=bool(stp > 0),
                           leMax=bool(stp <= smax), evals=obs.nf_plain - nf0,
                           _stp=float(stp), _smax=float(smax))
                return stp

            def update_lbfgs_matrices(*a, **k):
                na = named_args(saved["update_lbfgs_matrices"], a, k, {"xk": 0, "gk": 1, "X": 2, "G": 3, "eps": 7})
                if na is None:
                    raise Machinery("update_lbfgs_matrices called with arguments the observer cannot bind")
                xk, gk, X, G = na["xk"], na["gk"], na["X"], na["G"]
                before = [obs.pid(v) for v in X]
                xo, go = X[-1], G[-1]
                yk = gk - go
                sty = float((xk - xo).dot(yk))
                yty = float(yk.dot(yk))
                eps = na["eps"]
                r = saved["update_lbfgs_matrices"](*a, **k)
                after = [obs.pid(v) for v in X]
                obs.ev("MemUpd", cand=obs.pid(xk), before=before, ids=after,
                       curv=bool(sty > eps * yty), _X=[np.array(v, copy=True) for v in X],
                       _G=[np.array(v, copy=True) for v in G])
                return r

            def make_wolfe(*a, **k):
                na = named_args(saved["make_X_and_G_respect_strong_wolfe"], a, k, {"X": 0, "G": 1})
                if na is None:
                    raise Machinery("make_X_and_G_respect_strong_wolfe called with arguments the observer cannot bind")
                before = [obs.pid(v) for v in na["X"]]
                X2, G2 = saved["make_X_and_G_respect_strong_wolfe"](*a, **k)
                obs.ev("Filter", before=before, ids=[obs.pid(v) for v in X2],
                       _X=[np.array(v, copy=True) for v in X2], _G=[np.array(v, copy=True) for v in G2])
                return X2, G2

            def approx_derivative(fun, x0, *a, **k):
                obs.in_stencil += 1
                obs.stencil_pts = []
                p = obs.pid(x0)
                try:
                    g = saved_ad(fun, x0, *a, **k)
                except BaseException:
                    # either an injected fault of the objective (already logged by its wrapper) or an
                    # error of the differentiation routine itself (reaches the caller: `Raised`)
                    obs.in_stencil -= 1
                    raise
                obs.in_stencil -= 1
                obs.gval[p] = np.array(g, dtype=float, copy=True)
                obs.ev("EvalG", pt=p, site=obs.site[-1], exc=False, nst=len(obs.stencil_pts),
                       _stencil=list(obs.stencil_pts))
                return g

            saved_k = {n: getattr(sites(n)[-1], n) for n in KERNELS if sites(n)}

            def get_cauchy_point(*a, **k):
                from harness.memcheck import dense_from_mats
                na = named_args(saved_k["get_cauchy_point"], a, k, {"x": 0, "grad": 1, "lb": 2, "ub": 3, "mats": 4})
                if na is None:      # kernel facts are optional: an unbindable call is simply not judged
                    return saved_k["get_cauchy_point"](*a, **k)
                x, grad, lb, ub, mats = na["x"], na["grad"], na["lb"], na["ub"], na["mats"]
                xi, gi = np.array(x, copy=True), np.array(grad, copy=True)
                xcp, c = saved_k["get_cauchy_point"](*a, **k)
                try:
                    B = dense_from_mats(mats, xi.size)
                    tref, xref = ref_cauchy(xi, gi, np.asarray(lb, float), np.asarray(ub, float), B)
                    xc = np.asarray(xcp, float)
                    step = 1.0 + float(np.max(np.abs(xref - xi)))
                    # the segment recurrences of the code (f' += ...) lose digits when the gradient components
                    # span many orders of magnitude; the comparison tolerance follows that conditioning and
                    # badly scaled inputs (and vanishing steps, for c) are not judged on floats
                    ga = np.abs(gi[gi != 0])
                    ratio = float(ga.max() / ga.min()) if ga.size else 1.0
                    tol = max(1e-6, 100.0 * np.finfo(float).eps * ratio ** 2)
                    judged = bool(tol <= 1e-3 and np.all(np.isfinite(B)))
                    tiny = bool(np.max(np.abs(xc - xi)) <= 1e-7 * (1.0 + float(np.max(np.abs(xi)))))
                    mx = model_value(xi, gi, B, xc)
                    t0 = (((gi < 0) & (xi == ub)) | ((gi > 0) & (xi == lb)) | (gi == 0))
                    free = (xc != lb) & (xc != ub)
                    cexp = mats.W.T @ (xc - xi) if mats.use_factor else np.zeros_like(np.asarray(c, float))
                    obs.ev("Cauchy", feasible=bool(np.all(lb <= xc) and np.all(xc <= ub)),
                           t0Unmoved=bool(np.array_equal(xc[t0], xi[t0])),
                           modelNonInc=bool(mx <= 1e-9 * (1.0 + abs(mx))),
                           matchesRef=bool((not judged) or np.max(np.abs(xc - xref)) <= tol * step),
                           judged=judged,
                           cOk=bool((not free.any()) or tiny or (not judged) or np.all(
                               np.abs(np.asarray(c, float) - cexp)
                               <= 1e-6 * (np.abs(mats.W.T) @ (np.abs(xc - xi) + 1e-10 * (1.0 + np.abs(xi)))) + 1e-300)),
                           nfree=int(free.sum()), npairs=int(mats.W.shape[1] // 2 if mats.use_factor else 0),
                           _x=xi, _g=gi, _xcp=xc.copy(), _xref=xref, _B=B)
                except Exception as ex:  # noqa: BLE001 - the reference could not be computed (singular model)
                    obs.ev("Cauchy", feasible=True, t0Unmoved=True, modelNonInc=True, matchesRef=True, cOk=True,
                           judged=False, nfree=-1, npairs=-1, _skip=repr(ex))
                return xcp, c

            def subspace_minimization(*a, **k):
                from harness.memcheck import dense_from_mats
                na = named_args(saved_k["subspace_minimization"], a, k,
                                {"x": 0, "xc": 1, "grad": 6, "lb": 7, "ub": 8, "mats": 9})
                if na is None:
                    return saved_k["subspace_minimization"](*a, **k)
                nc = named_args(saved_k["subspace_minimization"], a, k, {"c": 5})
                na_c = None if nc is None else np.array(nc["c"], dtype=float, copy=True)
                x, xc, grad, lb, ub, mats = na["x"], na["xc"], na["grad"], na["lb"], na["ub"], na["mats"]
                xi, xci, gi = np.array(x, copy=True), np.array(xc, copy=True), np.array(grad, copy=True)
                xbar = saved_k["subspace_minimization"](*a, **k)
                try:
                    B = dense_from_mats(mats, xi.size)
                    xb = np.asarray(xbar, float).ravel()
                    xref, free, alpha = ref_subspace(xi, xci, gi, np.asarray(lb, float), np.asarray(ub, float), B)
                    act = np.ones(xi.size, bool)
                    act[free] = False
                    # scale of the comparison: the displacements the routine works with (the Cauchy point may lie very far
                    # from x along a direction of tiny gradient, the Newton step then comes back by the same distance)
                    step = 1.0 + max(float(np.max(np.abs(xref - xi))), float(np.max(np.abs(xci - xi))))
                    # conditioning-aware tolerance: the reduced Newton system is solved through different
                    # factorisations by the code (compact form) and by the reference (dense solve)
                    cond = float(np.linalg.cond(B[np.ix_(free, free)])) if free.size else 1.0
                    tol = max(1e-6, 1e3 * np.finfo(float).eps * cond)
                    judged = bool(tol <= 1e-3 and np.all(np.isfinite(B)))
                    # the routine works from the vector c it is handed as W^T (xc - x); when the Cauchy search lost that
                    # vector to cancellation (gradient components spanning ~1e15, a step length of ~1e14 along a direction of
                    # ~1e-16: not judged on floats in C08 either) the subspace point follows c, not xc - x: not judged
                    cin = na_c if na_c is not None else None
                    if judged and cin is not None and getattr(mats, "use_factor", False):
                        cexp_ = mats.W.T @ (xci - xi)
                        cin_ = np.asarray(cin, float).ravel()
                        if cin_.shape == cexp_.shape:
                            bound = 1e-8 * (np.abs(mats.W.T) @ (np.abs(xci - xi) + 1e-10 * (1.0 + np.abs(xi)))) + 1e-300
                            judged = bool(np.all(np.abs(cin_ - cexp_) <= bound))
                    mc, mb = model_value(xi, gi, B, xci), model_value(xi, gi, B, xb)
                    obs.ev("Subspace", activeFixed=bool(np.array_equal(xb[act], xci[act])),
                           feasibleTol=bool(np.all(xb >= lb - 1e-12 * (1 + np.abs(lb))) and np.all(xb <= ub + 1e-12 * (1 + np.abs(ub)))),
                           modelNonInc=bool(mb <= mc + 1e-9 * (1.0 + abs(mc))),
                           descent=bool(float(gi @ (xb - xi)) < 0),
                           matchesRef=bool((not judged) or np.max(np.abs(xb - xref)) <= tol * step),
                           judged=judged, nfree=int(free.size), _xbar=xb.copy(), _xref=xref)
                except Exception as ex:  # noqa: BLE001
                    obs.ev("Subspace", activeFixed=True, feasibleTol=True, modelNonInc=True, descent=True, matchesRef=True,
                           judged=False, nfree=-1, _skip=repr(ex))
                return xbar

            wrappers = {"line_search": line_search, "update_lbfgs_matrices": update_lbfgs_matrices,
                        "make_X_and_G_respect_strong_wolfe": make_wolfe, "get_cauchy_point": get_cauchy_point,
                        "subspace_minimization": subspace_minimization}
            for n, lst in saved_sites.items():
                for mod, _orig in lst:
                    setattr(mod, n, wrappers[n])
            SFM.approx_derivative = approx_derivative
            try:
                yield
            finally:
                for n, lst in saved_sites.items():
                    for mod, orig in lst:
                        setattr(mod, n, orig)
                SFM.approx_derivative = saved_ad

    # ------------------------------------------------------------------ one call
    def call(self, *, x0, bounds, kwargs: dict, cb_stop_at: int | None = None, with_cb: bool = False,
             upd: str = "none", upd_fn=None, scaler=None, ftarget=None, gtol=1e-5, checkpoint=None,
             fault=None, cb_mutate=False):
        """Run one call of minimize_lbfgsb; returns (result | None, exception | None)."""
        # the fault carries the identity AND a snapshot of type / message / args taken at injection time
        self.fault = None if fault is None else (fault[0], fault[1], fault[2], type(fault[2]), str(fault[2]), tuple(fault[2].args))
        self.scale = 1.0
        kw = dict(kwargs)
        lb, ub = self.lb, self.ub
        ck = checkpoint
        cfg = {
            "maxiter": int(kw.get("maxiter", 50)), "maxfun": int(kw.get("maxfun", 15000)),
            "maxls": int(kw.get("maxls", 20)), "maxcor": int(kw.get("maxcor", 10)),
            "tk": "none" if ftarget is None else ("call" if callable(ftarget) else "float"),
            "gk": "call" if callable(gtol) else "float",
            "ftol0": bool(kw.get("ftol", 1e-5) == 0),
            "cb": bool(with_cb), "upd": upd, "scaler": scaler is not None,
            "fd": self.jac_mode != "callable", "ck": ck is not None,
        }
        if ck is not None:
            cfg["ckNit"], cfg["ckNfev"], cfg["ckNjev"] = int(ck.nit), int(ck.nfev), int(ck.njev)
            cfg["ckNp"] = int(ck.hess_inv.sk.shape[0])
            cfg["ckX"] = self.pid(ck.x)
            self.extra_vals.append(float(ck.fun))
            cfg["_ckfun"] = float(ck.fun)
            cfg["_ckjac"] = np.array(ck.jac, dtype=float, copy=True)
            cfg["_cksk_last"] = np.array(ck.hess_inv.sk[-1], dtype=float, copy=True) if ck.hess_inv.sk.shape[0] else None
            cfg["_ckx"] = np.array(ck.x, dtype=float, copy=True)
        self._gtol_val = None
        self._ftarget_val = None
        start = self.ev("Start", cfg=cfg, x0=self.pid(np.clip(np.asarray(x0, float), lb, ub)))

        def w_stop(which, f):
            if not callable(f):
                return f

            def g():
                exc = self._maybe_fault(which)
                if exc is not None:
                    self.ev("Call", who=which, exc=True)
                    raise exc
                v = f()
                self.ev("Call", who=which, exc=False)
                return v

            return g

        ft = w_stop("ftarget", ftarget)
        gt = w_stop("gtol", gtol)

        sc = None
        if scaler is not None:
            def sc(x, g, l, u):
                xs = self.pid(x)
                raw = self.gval.get(xs)
                # (finite-difference modes: the derivative along a variable with lb == ub is not defined - the raw output
                # of the differentiation routine is NaN there, the package reports 0 - and is not compared)
                mov = (np.asarray(lb) < np.asarray(ub)) if self.jac_raw is None else np.ones(np.shape(lb), bool)
                args_ok = bool(raw is not None and np.array_equal(np.asarray(g)[mov], np.asarray(raw)[mov])
                               and np.array_equal(l, lb) and np.array_equal(u, ub) and xs == start["x0"])
                exc = self._maybe_fault("scaler")
                if exc is not None:
                    self.ev("Call", who="scaler", exc=True, argsOk=args_ok)
                    raise exc
                s = scaler(x, g, l, u)
                self.scale = float(s)
                self.ev("Call", who="scaler", exc=False, argsOk=args_ok)
                return s

        ufd = None
        if upd != "none":
            def ufd(x, f0, f0_old, grad, X, G):
                exc = self._maybe_fault("upd")
                if exc is not None:
                    self.ev("Call", who="upd", exc=True)
                    raise exc
                if upd == "ident" or upd_fn is None:
                    out = (f0, f0_old, grad, G)
                else:
                    out = upd_fn(x, f0, f0_old, grad, X, G)
                self.ev("Call", who="upd", exc=False, ident=bool(upd == "ident"), pt=self.pid(x))
                return out

        cb = None
        if with_cb:
            def cb(xk, state):
                exc = self._maybe_fault("cb")
                snap = self._snapshot("Callback", state, xk=xk)
                k = self.calls["cb"]
                ret = bool(cb_stop_at is not None and k >= cb_stop_at)
                snap["ret"] = ret
                snap["exc"] = exc is not None
                self.cb_states.append({"state": state, "copy": copy.deepcopy(state), "ev": snap})
                if exc is not None:
                    raise exc
                if cb_mutate:
                    xk[:] = np.nan
                return ret

        jac_arg = self.w_jac() if self.jac_raw is not None else (None if self.jac_mode == "none" else self.jac_mode)
        res, err = None, None
        try:
            with self.interposed():
                res = lbfgsb.minimize_lbfgsb(
                    x0=x0, fun=self.w_fun(), jac=jac_arg, bounds=bounds, checkpoint=ck,
                    ftarget=ft, gtol=gt, callback=cb, update_fun_def=ufd, gradient_scaler=sc, **kw)
        except (Machinery, KeyboardInterrupt):
            raise
        except BaseException as ex:  # noqa: BLE001
            err = ex
        if callable(gtol):
            try:
                self._gtol_val = float(gtol())
            except Exception:  # noqa: BLE001
                self._gtol_val = None
        else:
            self._gtol_val = float(gtol)
        if ftarget is None:
            self._ftarget_val = None
        elif callable(ftarget):
            try:
                self._ftarget_val = float(ftarget())
            except Exception:  # noqa: BLE001
                self._ftarget_val = None
        else:
            self._ftarget_val = float(ftarget)
        if self._ftarget_val is not None:
            start["_target"] = self._ftarget_val
        start["_gtol"] = self._gtol_val
        start["_scale_after"] = None  # filled in finalize
        if err is not None:
            f = self.fault
            self.ev("Raised", same=bool(f is not None and err is f[2] and type(err) is f[3] and str(err) == f[4]
                                        and err.args == f[5]),
                    injected=bool(f is not None), _exc=repr(err), _type=type(err).__name__)
        else:
            same_ck = bool(ck is not None and res is ck)
            e = self._snapshot("Return", res)
            e["isCk"] = same_ck
        return res, err

    # ------------------------------------------------------------------ snapshots
    def _snapshot(self, kind, st, xk=None):
        x = np.asarray(st.x, float)
        e = self.ev(kind, x=self.pid(x), nit=int(st.nit), nfev=int(st.nfev), njev=int(st.njev),
                    msg=MSG.get(st.message, "UNDOC:" + str(st.message)), success=bool(st.success),
                    status=int(st.status), np=int(st.hess_inv.sk.shape[0]),
                    _fun=float(st.fun), _jac=np.array(st.jac, dtype=float, copy=True),
                    _x=x.copy(), _sk=np.array(st.hess_inv.sk, copy=True),
                    _yk=np.array(st.hess_inv.yk, copy=True), _scale=self.scale)
        if xk is not None:
            e["xkSame"] = bool(np.array_equal(xk, x))
            e["xkAlias"] = bool(np.shares_memory(xk, st.x))
        return e


# ---------------------------------------------------------------------- finalisation
def finalize(obs: Observer) -> list[dict]:
    """Post-pass: turn raw observations into facts (ranks, feasibility, provenance)."""
    lb, ub = obs.lb, obs.ub
    fixed = lb == ub
    evs = obs.events
    # segments: one per Start
    out = []
    # value ranks are per trace (a chain shares one objective); all values are compared after
    # multiplication by the scale in force at the moment they were produced.
    vals = set()
    scale = 1.0
    seg_scale = {}
    cur_start = None
    for i, e in enumerate(evs):
        if e["e"] == "Start":
            cur_start = i
            seg_scale[i] = 1.0
        if e["e"] in ("Return", "Callback"):
            seg_scale[cur_start] = e["_scale"]
    # collect values
    cur_start = None
    for i, e in enumerate(evs):
        if e["e"] == "Start":
            cur_start = i
            s = seg_scale[i]
            if "_target" in e:
                vals.add(e["_target"] * 1.0)
            if "_ckfun" in e["cfg"]:
                vals.add(e["cfg"]["_ckfun"])
        s = seg_scale.get(cur_start, 1.0)
        if e["e"] == "EvalF" and not e["exc"]:
            vals.add(e["_v"] * s)
        if e["e"] in ("Return", "Callback"):
            vals.add(e["_fun"])
    order = sorted(v for v in vals if v == v)
    rank = {v: k for k, v in enumerate(order)}

    def rk(v):
        return rank.get(v, -1) if v == v else -1

    def inbox(p):
        a = obs.arr[p]
        return bool(np.all(lb <= a) and np.all(a <= ub))

    def fixok(p):
        a = obs.arr[p]
        return bool(np.all(a[fixed] == lb[fixed]))

    iter_pts = set()  # ids that were iterates (x0, accepted points)
    unanchored = False  # sticky: some restart of this chain used a checkpoint whose newest pair does not end at its x
    cur_start = None
    for i, e in enumerate(evs):
        k = e["e"]
        o = {kk: vv for kk, vv in e.items() if not kk.startswith("_")}
        if k == "Start":
            last_acc = None
            cur_start = i
            s = seg_scale[i]
            c = {kk: vv for kk, vv in e["cfg"].items() if not kk.startswith("_")}
            # target expressed on the scaled value scale: f0/scale <= target  <=>  compare ranks of
            # f_user*s with target*s is not exact; the code divides: we test f_user*s/s <= target below.
            c["T"] = rk(e["_target"]) if "_target" in e else -1
            c["ckF"] = rk(e["cfg"]["_ckfun"]) if "_ckfun" in e["cfg"] else -1
            target = e.get("_target")
            gtol = e.get("_gtol")
            for kk in ("ckNit", "ckNfev", "ckNjev", "ckNp"):
                c.setdefault(kk, 0)
            c.setdefault("ckX", 0)
            c["ckMem"] = []
            for e2 in evs[i + 1:]:
                if e2["e"] in ("Start", "LSBegin", "Return", "Raised"):
                    break
                if e2["e"] == "MemUpd":
                    c["ckMem"] = list(e2["before"]) if e["cfg"]["ck"] else []
                    break
            c["ckPg"] = bool("_ckjac" in e["cfg"] and gtol is not None
                             and projgr(e["cfg"]["_ckx"], e["cfg"]["_ckjac"], lb, ub) <= gtol)
            skl = e["cfg"].get("_cksk_last")
            if e["cfg"]["ck"] and skl is not None:
                xa = obs.arr[e["x0"]]
                if not any(np.allclose(xa - obs.arr[a], skl, rtol=1e-9, atol=1e-12 * (1.0 + float(np.max(np.abs(xa)))))
                           for a in iter_pts if a != e["x0"]):
                    unanchored = True
            o["cfg"] = c
            o["inbox"] = inbox(e["x0"])
            iter_pts.add(e["x0"])
        elif k == "EvalF":
            s = seg_scale[cur_start]
            o["inbox"], o["fixed"] = inbox(e["pt"]), fixok(e["pt"])
            o["fr"] = rk(e["_v"] * s) if not e["exc"] else -1
            # the point evaluated right after an accepted line search is the new iterate: it is the accepted trial point
            # up to rounding (a solver may recompute it; it may not move somewhere the search never went)
            o["near"] = True
            if e.get("site") == "main" and last_acc is not None:
                a, b = obs.arr[e["pt"]], obs.arr[last_acc]
                o["near"] = bool(np.max(np.abs(a - b)) <= 1e-9 * (1.0 + float(np.max(np.abs(b)))))
            last_acc = None
        elif k == "EvalS":
            o["inbox"], o["fixed"] = inbox(e["pt"]), fixok(e["pt"])
        elif k == "EvalG":
            o["inbox"], o["fixed"] = inbox(e["pt"]), fixok(e["pt"])
            s = seg_scale[cur_start]
            g = obs.gval.get(e["pt"])
            o["pg"] = bool(g is not None and gtol is not None
                           and projgr(obs.arr[e["pt"]], g * s, lb, ub) <= gtol)
        elif k == "LSBegin":
            o["fr"] = rk(e["_f0"])
        elif k == "LSEnd":
            last_acc = e["pt"] if e["ret"] == "step" else None
            if e["ret"] == "step":
                iter_pts.add(e["pt"])
                s = seg_scale[cur_start]
                fv = obs.fval.get(e["pt"])
                o["fr"] = rk(fv * s) if fv is not None else -1
            else:
                o["fr"] = -1
        elif k in ("MemUpd", "Filter"):
            X, G = e["_X"], e["_G"]
            curv = True
            for j in range(len(X) - 1):
                yk = G[j + 1] - G[j]
                if not float((X[j + 1] - X[j]).dot(yk)) > obs.eps_SY * float(yk.dot(yk)):
                    curv = False
            o["allCurv"] = curv
        elif k in ("Return", "Callback"):
            s = e["_scale"]
            x = e["_x"]
            p = e["x"]
            o["inbox"], o["fixed"] = inbox(p), fixok(p)
            fu = obs.fval.get(p)
            # re-evaluate the user's functions at the returned x (pure functions of x)
            try:
                fre = float(obs.fun_raw(x.copy()))
            except Exception:  # noqa: BLE001
                fre = None
            o["funOk"] = bool(fre is not None and (fre * s == e["_fun"]))
            if obs.jac_raw is not None:
                gre = np.asarray(obs.jac_raw(x.copy()), float)
                o["jacOk"] = bool(gre.shape == e["_jac"].shape and np.array_equal(gre * s, e["_jac"]))
            else:
                graw = obs.gval.get(p)
                o["jacOk"] = bool(graw is not None and np.array_equal(graw * s, e["_jac"]))
            o["fr"] = rk(e["_fun"])
            o["pg"] = bool(projgr(x, e["_jac"], lb, ub) <= gtol) if gtol is not None else False
            o["leT"] = bool(target is not None and e["_fun"] / s <= target)
            # provenance of the correction pairs: (a, b) such that sk[r] == pts[b] - pts[a]
            # bit-exactly (exact = True) or, failing that, up to rounding (exact = False)
            sk, yk = e["_sk"], e["_yk"]
            prov = []
            sy = True
            cands = sorted(iter_pts, reverse=True)
            # rows are processed from the newest to the oldest; among several matching (a, b) the one that
            # chains with the next pair (b == a of the later pair) is preferred, then the most recent
            need_b = None
            prov_rev = []
            for r in range(sk.shape[0] - 1, -1, -1):
                # [a, b, yExact, sExact, yApprox]
                found = [0, 0, False, False, False]
                for exact in (True, False):
                    matches = []
                    for b in cands:
                        for a in cands:
                            if a == b:
                                continue
                            dab = obs.arr[b] - obs.arr[a]
                            if (np.array_equal(dab, sk[r]) if exact else
                                    np.allclose(dab, sk[r], rtol=1e-9, atol=1e-12 * (1 + float(np.max(np.abs(obs.arr[b])))))):
                                matches.append((a, b))
                    if matches:
                        def score(m):
                            ga, gb = obs.gval.get(m[0]), obs.gval.get(m[1])
                            yex = bool(ga is not None and gb is not None and np.array_equal(gb * s - ga * s, yk[r]))
                            return (m[1] == need_b, yex, m[1], m[0])
                        a, b = max(matches, key=score)
                        ga, gb = obs.gval.get(a), obs.gval.get(b)
                        yex = yap = False
                        if ga is not None and gb is not None:
                            dy = gb * s - ga * s
                            yex = bool(np.array_equal(dy, yk[r]))
                            yap = bool(np.allclose(dy, yk[r], rtol=1e-7, atol=1e-10 * (1 + float(np.max(np.abs(gb * s))))))
                        found = [a, b, yex, exact, yap]
                        break
                prov_rev.append(found)
                need_b = found[0] if found[0] else None
                if not float(sk[r].dot(yk[r])) > 0:
                    sy = False
            prov = prov_rev[::-1]
            o["unanchoredRestart"] = bool(unanchored)
            o["prov"] = prov
            o["syPos"] = sy
            if k == "Callback":
                cs = next(c for c in obs.cb_states if c["ev"] is e)
                o["frozen"] = _same_state(cs["state"], cs["copy"])
        out.append(o)
    return out


def _same_state(a, b) -> bool:
    try:
        for f in ("x", "jac"):
            if not np.array_equal(np.asarray(a[f]), np.asarray(b[f])):
                return False
        for f in ("fun", "nfev", "njev", "nit", "status", "message", "success"):
            if a[f] != b[f]:
                return False
        return bool(np.array_equal(a.hess_inv.sk, b.hess_inv.sk) and np.array_equal(a.hess_inv.yk, b.hess_inv.yk))
    except Exception:  # noqa: BLE001
        return False
