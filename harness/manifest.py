"""Generates /verif/MANIFEST.json from the table below (python -m harness.manifest)."""
import importlib
import json
from pathlib import Path

VERIF = Path(__file__).resolve().parent.parent

DRIVER_NOTE = ("Trusted: TLC; the observation layer (harness/observe.py: wrappers around the user callables and around "
               "lbfgsb.main.{line_search, update_lbfgs_matrices, make_X_and_G_respect_strong_wolfe} and "
               "lbfgsb.scalar_function.approx_derivative) and its exact-comparison projection to facts; the design run "
               "is exhaustive only within the constants of MCDriver_*.cfg; real runs are a finite sample of the "
               "quantifier (seeded).")
LATTICE_NOTE = ("Trusted: TLC's integer arithmetic (overflow raises), the rational library Rat/LinAlg, NumPy's conversion "
                "of small rationals to doubles; exhaustive for the stated lattice (n <= 3, entries small), not for "
                "arbitrary floats; tolerance 1e-9 on free coordinates, exact on pinned ones.")

CHECKS = {
    "C02": dict(cat="model_checking", tech="TLC rounding-adversary model per point-producing site + TLC trace validation of every evaluation point of real runs",
                text="Feasible.tla decides, for all roundings on a dyadic grid, which point-producing sites are safe by construction; every Eval/stencil/Callback/Return event of hundreds (quick) or thousands (thorough) of real bounded runs is validated by TLC against DriverTrace with exact inbox/fixed facts. Universal only in the abstract rounding model; on real floats it is monitoring of every evaluation.",
                ref="4.6, 7/C02", note=DRIVER_NOTE),
    "C03": dict(cat="model_checking", tech="TLC model checking of Driver (all line-search outcome sequences x budgets) + TLC trace validation of real runs",
                text="MCDriver exhausts every configuration/outcome sequence within small constants with C03_* invariants; traces of real runs (objective values as exact dense ranks) are validated by TLC, C03_Monotone/C03_ResultNotWorse/C03_LSStartsAtIterate evaluated in every state.",
                ref="4.1, 7/C03", note=DRIVER_NOTE),
    "C04": dict(cat="model_checking", tech="TLC model checking of the configuration lattice of Driver + TLC trace validation of the same lattice driven through the real solver",
                text="All C04_* invariants (documented reason, truth of each reason, success flag, budgets, one-shot stop callables) hold in every reachable state of MCDriver over the configuration lattice incl. restarts below the checkpoint's nit; the same lattice is run on the real solver and every trace validated (message vs facts recomputed by the harness).",
                ref="4.1, 7/C04", note=DRIVER_NOTE),
    "C05": dict(cat="model_checking", tech="TLC model checking of Driver x memo cell + TLC trace validation with bit-exact re-evaluation facts",
                text="Driver models the wrapper's memo cell; C05_* invariants checked exhaustively; real traces carry funOk/jacOk (bit-for-bit re-evaluation) and reported counters, compared by TLC with the model's own count of call events.",
                ref="4.1, 4.3, 7/C05", note=DRIVER_NOTE),
    "C08": dict(cat="model_checking", tech="TLC exhaustive rational lattice: algorithm == declarative first local minimiser; every lattice input replayed into get_cauchy_point",
                text="TLC evaluates the definition of the generalized Cauchy point exactly for every structural pattern (n <= 3) and proves the segment walk equal to it; each input is replayed into the real routine and compared with the exact result.",
                ref="3.1 A, 4.5, 7/C08", note=LATTICE_NOTE),
    "C09": dict(cat="model_checking", tech="TLC exhaustive rational lattice of the subspace step; every lattice input replayed into subspace_minimization",
                text="As C08 for the box-truncated Newton point: design claims (active fixed, reduced Newton system, alpha* maximal, model non-increase, descent) on every lattice input, and replay into the real routine with exact comparison.",
                ref="3.1 A, 4.5, 7/C09", note=LATTICE_NOTE),
}


def build():
    props = [json.loads(l) for l in open(VERIF / "properties.jsonl")]
    checks = []
    na = []
    for p in props:
        pid = p["id"]
        c = CHECKS.get(pid)
        have = (VERIF / "harness" / "checks" / f"{pid.lower()}.py").exists()
        if c is None or not have:
            na.append({"property_id": pid, "reason": "check not built yet (work in progress; DESIGN.md section 12 build order)"})
            continue
        checks.append({
            "property_id": pid,
            "quick_cmd": f"./check {pid} --tier quick",
            "thorough_cmd": f"./check {pid} --tier thorough",
            "evidence_file": f"/verif/evidence/{pid}.json",
            "replay_cmd_template": f"./check {pid} --replay {{path}}",
            "engine": "tlc+harness",
            "level_claimed": {"category": c["cat"], "text": c["text"], "design_ref": c["ref"]},
            "level_note": c["note"],
            "technique": c["tech"],
        })
    m = {
        "version": 1,
        "setup_cmd": "./check --setup",
        "hooks": {"guard": "LBFGSB_VERIF",
                  "enable": "no source hooks are needed: observation is by harness-side interposition (wrapping user callables and module globals) in the harness process only; the guard name is reserved",
                  "baseline_off_cmd": "cd /repo && /venv/bin/python -m pytest -ra -q -p no:cacheprovider --timeout=900 --continue-on-collection-errors",
                  "source_commits": [], "add_only": True},
        "engines": [
            {"name": "tlc+harness", "path": "/verif/check",
             "serves_properties": [c["property_id"] for c in checks],
             "kind_free_text": "explicit TLA+ specifications (spec/*.tla) checked with TLC; conformance by trace validation of real runs (code->spec) and replay of TLC-generated inputs/behaviours into the real code (spec->code)"}],
        "checks": checks,
        "notes": "See DESIGN.md. fix: commits in /repo repair genuine defects found by these checks; regress/*.diff are those repairs (reverse-apply to re-create the defect).",
        "not_applicable": na,
    }
    with open(VERIF / "MANIFEST.json", "w") as fh:
        json.dump(m, fh, indent=1)
        fh.write("\n")
    import jsonschema
    jsonschema.validate(m, json.load(open("/root/.vp/MANIFEST.schema.json")))
    return m


if __name__ == "__main__":
    m = build()
    print("claimed:", [c["property_id"] for c in m["checks"]])
