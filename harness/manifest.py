"""Generates /verif/MANIFEST.json from the table below (python -m harness.manifest)."""
import importlib
import json
from pathlib import Path

VERIF = Path(__file__).resolve().parent.parent

DRIVER_NOTE = ("Trusted: TLC; the observation layer (harness/observe.py: wrappers around the user callables and around "
               "lbfgsb.main.{line_search, update_lbfgs_matrices, make_X_and_G_respect_strong_wolfe} and "
               "lbfgsb.scalar_function.approx_derivative) and its exact-comparison projection to facts; the design run "
               "is exhaustive only within the constants of MCDriver_*.cfg; real runs are a finite sample of the "
               "quantifier (seeded).")
LATTICE_NOTE = ("Trusted: TLC's integer arithmetic (overflow raises), the rational library Rat/LinAlg, NumPy's conversion "
                "of small rationals to doubles; exhaustive for the stated lattice (n <= 3, entries small), not for "
                "arbitrary floats; tolerance 1e-9 on free coordinates, exact on pinned ones.")

CHECKS = {
    "C02": dict(cat="model_checking", tech="TLC rounding-adversary model per point-producing site + TLC trace validation of every evaluation point of real runs",
                text="Feasible.tla decides, for all roundings on a dyadic grid, which point-producing sites are safe by construction; every Eval/stencil/Callback/Return event of hundreds (quick) or thousands (thorough) of real bounded runs is validated by TLC against DriverTrace with exact inbox/fixed facts. Universal only in the abstract rounding model; on real floats it is monitoring of every evaluation.",
                ref="4.6, 7/C02", note=DRIVER_NOTE),
    "C03": dict(cat="model_checking", tech="TLC model checking of Driver (all line-search outcome sequences x budgets) + TLC trace validation of real runs",
                text="MCDriver exhausts every configuration/outcome sequence within small constants with C03_* invariants; traces of real runs (objective values as exact dense ranks) are validated by TLC, C03_Monotone/C03_ResultNotWorse/C03_LSStartsAtIterate evaluated in every state.",
                ref="4.1, 7/C03", note=DRIVER_NOTE),
    "C04": dict(cat="model_checking", tech="TLC model checking of the configuration lattice of Driver + TLC trace validation of the same lattice driven through the real solver",
                text="All C04_* invariants (documented reason, truth of each reason, success flag, budgets, one-shot stop callables) hold in every reachable state of MCDriver over the configuration lattice incl. restarts below the checkpoint's nit; the same lattice is run on the real solver and every trace validated (message vs facts recomputed by the harness). Runs in every gradient mode and on every kind of box (degenerate sides included), and budget sweeps placed around the natural end of runs that finish in the round-off regime, are part of the trace corpus.",
                ref="4.1, 7/C04", note=DRIVER_NOTE),
    "C05": dict(cat="model_checking", tech="TLC model checking of Driver x memo cell + TLC trace validation with bit-exact re-evaluation facts",
                text="Driver models the wrapper's memo cell; C05_* invariants checked exhaustively; real traces carry funOk/jacOk (bit-for-bit re-evaluation) and reported counters, compared by TLC with the model's own count of call events.",
                ref="4.1, 4.3, 7/C05", note=DRIVER_NOTE),
    "C08": dict(cat="model_checking", tech="TLC exhaustive rational lattice: algorithm == declarative first local minimiser; every lattice input replayed into get_cauchy_point",
                text="TLC evaluates the definition of the generalized Cauchy point exactly for every structural pattern (n <= 3) and proves the segment walk equal to it; each input is replayed into the real routine and compared with the exact result.",
                ref="3.1 A, 4.5, 7/C08", note=LATTICE_NOTE),
    "C09": dict(cat="model_checking", tech="TLC exhaustive rational lattice of the subspace step; every lattice input replayed into subspace_minimization",
                text="As C08 for the box-truncated Newton point: design claims (active fixed, reduced Newton system, alpha* maximal, model non-increase, descent) on every lattice input, and replay into the real routine with exact comparison.",
                ref="3.1 A, 4.5, 7/C09", note=LATTICE_NOTE),
    "C10": dict(cat="model_checking", tech="TLC model checking of Memory.tla over exact integer histories + replay of every reachable state into update_lbfgs_matrices + TLC trace validation of float histories",
                text="Memory.tla is exhausted over all histories (length <= 4/5) of candidate/reset operations on an integer lattice with exact rational matrix algebra (compact == BFGS recursion, SPD, secant, curvature, FIFO, bounded); every state is replayed into the real routines; random float histories of 40 updates and the updates intercepted in real runs are validated by TLC on ids with curvature / dense-reconstruction facts.",
                ref="4.4, 7/C10", note=LATTICE_NOTE + " Exact matrix algebra only for memories with small curvature numbers (32-bit rationals); SPD/secant/compact==dense on floats are harness-computed facts."),
    "C11": dict(cat="model_checking", tech="TLC model checking of LineSearch.tla + TLC trace validation of stand-alone line_search calls and of full runs",
                text="LineSearch.tla (dcsrch as a black box) is exhausted over all outcome sequences x budgets; thousands of stand-alone calls of line_search on oscillating non-convex objectives and the line searches of full runs are validated by TLC (trial points in box, evaluations <= cap, returned step is a trial, strictly lower, in (0, max step]).",
                ref="4.2, 7/C11", note=DRIVER_NOTE),
    "C15": dict(cat="model_checking", tech="TLC model checking of ScalarFn.tla + TLC trace validation of every call history up to the bound on the real ScalarFunction",
                text="ScalarFn.tla (memo cell, counters, scale, caller mutation; callable and FD modes) is exhausted; every history up to length 4 (quick) / 6 (thorough) over {fun, grad, fun_and_grad} x 3 points incl. a near-duplicate point, scale changes and caller overwrites is executed on the real wrapper in all five gradient modes and validated by TLC.",
                ref="4.3, 7/C15", note="Trusted: TLC; the harness-side log of user calls and its bit-exact comparison with fresh evaluations; the adopted reading of 'not re-evaluated' (single memo cell)."),
    "C17": dict(cat="model_checking", tech="TLC validation of merged evaluation traces (scaler run vs explicitly scaled run) against the Equiv monitor, exact mode + DriverTrace clauses",
                text="Relation between two complete runs: every evaluation point, x, fun, jac, counters, pairs and message bit-identical; scaler called once with (x0, unscaled g0, bounds); target on the unscaled value. Decided per pair of real runs by TLC on the merged trace; s in [1e-3, 1e3] and the packaged scaler. Finite-difference modes are covered with power-of-two factors; a restart with a scaler and a target met at the start point are exercised and matched against two recorded known findings.",
                ref="4.9, 7/C17", note=DRIVER_NOTE),
    "C18": dict(cat="model_checking", tech="TLC model checking of pair provenance in Driver/Memory + TLC trace validation of bit-exact provenance facts of real runs + lattice replay of the inverse-diagonal utility",
                text="Driver: pairs = consecutive retained iterates, count <= maxcor, chronological; Memory.tla: exact two-loop inverse diagonal replayed into LbfgsInvHessProduct/extract_hess_inv_diag; real runs (incl. callbacks, restart chains): each sk/yk row matched bit-exactly to differences of visited iterates / user gradients, validated by TLC. For large random pair sets diag == todense().diagonal() is a logged relation. Rewritten histories (update functions, incl. the iteration in which the run stops and the initial call of a restart) are judged on the same clauses; MCDriver_rewrite.cfg is part of the design run.",
                ref="4.4, 7/C18", note=DRIVER_NOTE + " Known finding KF-C18-inherited-pairs (pairs inherited through a restart are exact only up to rounding)."),
    "C20": dict(cat="fault_enumeration", tech="TLC model checking of Raise/Propagate in Driver + enumeration of fault injection points replayed on the real solver, traces validated by TLC",
                text="Design: after Raise only Propagate. Every call index (capped) of every callable kind of the explored runs x several exception types is injected; the trace must show the same exception object reaching the caller; the identical fault-free call afterwards equals the fresh-process result bit-for-bit; module-level mutable objects unchanged. Eleven exception types per injection point near the start of a run (incl. StopIteration and a BaseException subclass); one recorded known finding (StopIteration inside SciPy's stencil evaluation).",
                ref="4.1, 4.8, 7/C20", note=DRIVER_NOTE),
    "C01": dict(cat="model_checking", tech="TLC model checking of Driver under the convex environment contract with fairness (liveness) + exact KKT oracle (BoxQP.tla) replayed into the solver + TLC validation of traces/results of random convex runs",
                text="Composition argument: Driver terminates at a stationary point and never reports ABNORMAL when the kernels honour their contracts (C08-C11 discharge those); every integer box-QP of the lattice (n <= 3, all boxes, all lattice starts) is solved by the real code and compared with TLC's exact KKT point; random convex families (n <= 12) are judged on the caller-side projected gradient whatever the message. Convergence on float families is exploration, exact decision only on the lattice.",
                ref="3.2, 4.1, 4.5, 7/C01", note=DRIVER_NOTE + " Stationarity threshold max(gtol, 1e-6*max(1, |g|, pg0))."),
    "C06": dict(cat="model_checking", tech="TLC model checking of restart in Driver and Restore o Externalise = LastN in Memory.tla + replay into initialize_X_and_G + TLC validation (Equiv monitor) of restart-vs-uninterrupted merged traces at every split point",
                text="Design: restore arithmetic exact on the integer lattice, restart from any result, chains, maxcor reduced. Real runs: for every split iteration k, zero-iteration restart returns the same pairs (most recent when maxcor is reduced), continuation and chains of up to 4 restarts coincide with the uninterrupted run up to rounding (well-conditioned smooth families).",
                ref="4.1, 4.4, 4.9, 7/C06", note=DRIVER_NOTE + " Known finding KF-C06-restart-after-rejected-update."),
    "C07": dict(cat="model_checking", tech="TLC model checking of snapshot/crash composition in Driver + TLC trace validation of callback events + Equiv monitor on snapshot-vs-maxiter=k, restart-from-retained-state and callback-neutrality relations at every crash point",
                text="Every iteration k of every explored run is a crash point: retained state == result of maxiter=k (bit-exact), immutable after the callback returns, restart from it continues like the uninterrupted run (up to rounding), a callback returning False is neutral (bit-exact).",
                ref="4.1, 4.7, 4.9, 7/C07", note=DRIVER_NOTE + " Known finding KF-C07-restart-after-rejected-update."),
    "C12": dict(cat="other", tech="Equiv.tla monitor (TLC) over merged evaluation traces of minimize_lbfgsb and SciPy's L-BFGS-B with deviation-aware acceptance; constants pinned; exact lattice algebra for theta / compact form",
                text="Differential comparison with the reference implementation shipped in SciPy, orchestrated and judged by the TLA+ monitor: lock-step on every objective evaluation of the first 12 iterations unless a documented deviation or round-off is logged; same optimal value on convex box problems. TLA+ cannot compute the reference trajectories; it contributes the acceptance rule, the pinned constants and the exact algebra.",
                ref="4.9, 7/C12, 8", note="Trusted: SciPy's L-BFGS-B as the reference; the harness-side detection of deviation triggers; tolerance rtol 1e-7 on points."),
    "C13": dict(cat="model_checking", tech="TLC model checking of the update-function actions in Driver and of the filter laws in Memory.tla + lattice replay into make_X_and_G_respect_strong_wolfe + Equiv monitor on identity / switching / restart relations",
                text="Identity update function is neutral (bit-exact, incl. message); after a rewrite at iteration k the pairs are bit-exact differences of the rewritten gradients, every retained pair has curvature, the newest point is retained, and the continuation equals a restart on the new objective from the state holding the rewritten history. The design model also decides, for rewriting update functions with restarts (MCDriver_rewrite.cfg), that every result / callback state carrying pairs holds a sequence filtered after the last redefinition and that the target is tested before ftol (invariants C13_ReturnFiltered, C13_SnapFiltered, C13_TargetFirst; fixes ad0fb3f, 645f7b7, 32361ca).",
                ref="4.1, 4.4, 7/C13", note=DRIVER_NOTE),
    "C14": dict(cat="model_checking", tech="TLC enumeration of all interleavings / nestings of two runs' yield points (Interleave.tla) replayed on threads with a hand-off scheduler + Equiv monitor (exact) on solo-vs-scheduled, repeated, read-only, logging and restart-twice relations",
                text="All 70 (quick) / 924 (thorough) schedules of the first 4 / 6 objective calls of two runs and all nestings are replayed on the real code; results and evaluation logs must equal the solo runs bit-for-bit; inputs (x0, bounds, checkpoint) untouched and accepted read-only; iprint x logger has no numerical influence; restarting twice from one checkpoint gives the same result.",
                ref="4.8, 4.7, 7/C14", note="Trusted: TLC; CPython's GIL-level atomicity of the hand-off scheduler; beyond the gated calls threads run freely (extra stress, not enumerated)."),
    "C16": dict(cat="model_checking", tech="TLC rounding-adversary model of the bounded stencil + ScalarFn.tla in FD mode + TLC trace validation of FD runs + Equiv monitor on FD-vs-exact-gradient results",
                text="No exception reaches the caller, every stencil point lies in the box, nfev counts every objective call (DriverTrace); on convex problems with active bounds the FD solution value matches the exact-gradient one to the accuracy of the scheme; all four modes, eps / rel_step varied.",
                ref="4.6, 4.3, 7/C16", note=DRIVER_NOTE + " Degenerate sides (lb == ub) are exercised with callable gradients only: SciPy's differentiation routine returns NaN for a zero-width interval."),
    "C19": dict(cat="model_checking", tech="TLC exact oracle for the polynomial benchmarks (stencils exact for the degree) replayed into the exported functions + TLC fixed-point evaluation of a 6th-order stencil relation for all eight pairs",
                text="Polynomial pairs: exact value and gradient at every lattice point from an independent transcription. All eight pairs: the stencil relation between sampled function values and the exported gradient is judged by TLC in 32-bit fixed point (tolerance 1e-3 relative) - the weakest application of the family: a stateless numeric relation at sampling strength.",
                ref="4.10, 7/C19, 8", note="Trusted: the harness's fixed-point conversion; no independent definition of cos/exp in TLA+."),
}


def build():
    props = [json.loads(l) for l in open(VERIF / "properties.jsonl")]
    checks = []
    na = []
    for p in props:
        pid = p["id"]
        c = CHECKS.get(pid)
        have = (VERIF / "harness" / "checks" / f"{pid.lower()}.py").exists()
        if c is None or not have:
            na.append({"property_id": pid, "reason": "check not built yet (work in progress; DESIGN.md section 12 build order)"})
            continue
        checks.append({
            "property_id": pid,
            "quick_cmd": f"./check {pid} --tier quick",
            "thorough_cmd": f"./check {pid} --tier thorough",
            "evidence_file": f"/verif/evidence/{pid}.json",
            "replay_cmd_template": f"./check {pid} --replay {{path}}",
            "engine": "tlc+harness",
            "level_claimed": {"category": c["cat"], "text": c["text"], "design_ref": c["ref"]},
            "level_note": c["note"],
            "technique": c["tech"],
        })
    m = {
        "version": 1,
        "setup_cmd": "./check --setup",
        "hooks": {"guard": "LBFGSB_VERIF",
                  "enable": "no source hooks are needed: observation is by harness-side interposition (wrapping user callables and module globals) in the harness process only; the guard name is reserved",
                  "baseline_off_cmd": "cd /repo && /venv/bin/python -m pytest -ra -q -p no:cacheprovider --timeout=900 --continue-on-collection-errors",
                  "source_commits": [], "add_only": True},
        "engines": [
            {"name": "tlc+harness", "path": "/verif/check",
             "serves_properties": [c["property_id"] for c in checks],
             "kind_free_text": "explicit TLA+ specifications (spec/*.tla) checked with TLC; conformance by trace validation of real runs (code->spec) and replay of TLC-generated inputs/behaviours into the real code (spec->code)"}],
        "checks": checks,
        "notes": "See DESIGN.md. fix: commits in /repo repair genuine defects found by these checks; regress/*.diff are those repairs (reverse-apply to re-create the defect).",
        "not_applicable": na,
    }
    with open(VERIF / "MANIFEST.json", "w") as fh:
        json.dump(m, fh, indent=1)
        fh.write("\n")
    import jsonschema
    jsonschema.validate(m, json.load(open("/root/.vp/MANIFEST.schema.json")))
    return m


if __name__ == "__main__":
    m = build()
    print("claimed:", [c["property_id"] for c in m["checks"]])
