"""Batch trace validation against spec/DriverTrace.tla (code -> spec)."""
from __future__ import annotations

import json
import os
from concurrent.futures import ThreadPoolExecutor

from harness.common import NCPU, Ctx, Machinery, _js, parse_printt, run_tlc


def validate(ctx: Ctx, traces: list[list[dict]], module: str = "DriverTrace", name: str = "trace",
             shards: int | None = None) -> list[set[str]]:
    """Validate traces; returns, per trace, the set of violated clause names."""
    if not traces:
        return []
    n = len(traces)
    shards = shards or max(1, min(NCPU, n // 25 + 1))
    parts = [list(range(i, n, shards)) for i in range(shards)]
    result: list[set[str] | None] = [None] * n

    def one(k):
        idx = parts[k]
        path = ctx.tmp / f"{name}-{k}.json"
        with open(path, "w") as fh:
            json.dump([traces[i] for i in idx], fh, default=_js)
        res = run_tlc(ctx, f"{name}-{k}", module, f"{module}.cfg", env={"TRACE_FILE": str(path)},
                      workers=1, timeout=5400, record=False)
        os.unlink(path)
        return k, res

    with ThreadPoolExecutor(max_workers=shards) as ex:
        outs = list(ex.map(one, range(shards)))
    agg = {"name": name, "distinct": 0, "generated": 0, "wall_s": 0.0}
    for k, res in outs:
        if not res["ok"]:
            tail = "\n".join(res["out"].splitlines()[-40:])
            raise Machinery(f"trace validation run {name}-{k} failed:\n{tail}")
        agg["distinct"] += res.get("distinct", 0)
        agg["generated"] += res.get("generated", 0)
        agg["wall_s"] = max(agg["wall_s"], res["wall_s"])
        for row in parse_printt(res["out"], "ACC"):
            _, tid, viol = row
            result[parts[k][tid - 1]] = set(viol["__set__"])
    ctx.tlc_runs.append(agg)
    missing = [i for i, r in enumerate(result) if r is None]
    if missing:
        raise Machinery(f"trace validation {name}: no verdict for traces {missing[:5]} ...")
    ctx.add_counts(traces_validated_against_impl=n)
    return result  # type: ignore[return-value]
