"""Problem families (DESIGN section 6). Everything is a pure function of x and seeded."""
from __future__ import annotations

import numpy as np

import lbfgsb


class Problem:
    def __init__(self, name, n, fun, grad, lb, ub, x0, convex, meta=None):
        self.name, self.n, self.fun, self.grad = name, n, fun, grad
        self.lb, self.ub, self.x0, self.convex = lb, ub, x0, convex
        self.meta = meta or {}

    @property
    def bounds(self):
        return np.array((self.lb, self.ub)).T

    def describe(self):
        return {"name": self.name, "n": self.n, "convex": self.convex, **self.meta}


def _sc(v):
    """float for real input; complex values pass through (complex-step differentiation)."""
    return v if np.iscomplexobj(v) else float(v)


CS_OK = ["qp", "qp4", "badscale", "sphere", "quartic", "qpcos", "osc"]   # analytic, accept complex input


def _spd(rng, n, cond):
    q, _ = np.linalg.qr(rng.standard_normal((n, n)))
    ev = np.exp(rng.uniform(0, np.log(cond), n)) if n > 1 else np.array([1.0])
    ev = ev / ev.min()
    a = (q * ev) @ q.T
    return 0.5 * (a + a.T)


def make_box(rng, n, center, spread=2.0, kinds=None):
    """Each variable gets one of: free, lower only, upper only, two-sided, degenerate."""
    lb = np.full(n, -np.inf)
    ub = np.full(n, np.inf)
    kinds = kinds or ["free", "lo", "up", "box", "box", "fix"]
    ks = []
    for i in range(n):
        k = kinds[rng.integers(len(kinds))]
        ks.append(k)
        lo = center[i] + rng.uniform(-spread, spread * 0.5)
        hi = lo + rng.uniform(0.1, spread)
        if k == "lo":
            lb[i] = lo
        elif k == "up":
            ub[i] = hi
        elif k == "box":
            lb[i], ub[i] = lo, hi
        elif k == "fix":
            lb[i] = ub[i] = lo
        elif k == "narrow":     # a legal box much narrower than its distance to the origin can be (see spec "shift")
            lb[i], ub[i] = lo, lo + float(10 ** rng.uniform(-3.5, -2.3))
    return lb, ub, ks


def make_start(rng, lb, ub, mode):
    """Feasible start: interior, on faces, or on a vertex (where bounds exist)."""
    n = lb.size
    x = np.empty(n)
    for i in range(n):
        lo, hi = lb[i], ub[i]
        if np.isfinite(lo) and np.isfinite(hi):
            x[i] = rng.uniform(lo, hi)
        elif np.isfinite(lo):
            x[i] = lo + rng.exponential(1.5)
        elif np.isfinite(hi):
            x[i] = hi - rng.exponential(1.5)
        else:
            x[i] = rng.normal(0, 2)
        on = mode == "vertex" or (mode == "face" and rng.random() < 0.5)
        if on:
            if np.isfinite(lo) and (not np.isfinite(hi) or rng.random() < 0.5):
                x[i] = lo
            elif np.isfinite(hi):
                x[i] = hi
    return np.clip(x, lb, ub)


def gen(rng, family, n, box_kinds=None, start=None, cond=None, box_spread=None):
    """Generate one problem of `family`."""
    cond = cond or float(10 ** rng.uniform(0, 4))
    A = _spd(rng, n, cond)
    c = rng.normal(0, 1.5, n)
    convex = True
    if family == "qp":
        def fun(x, A=A, c=c):
            d = x - c
            return _sc(0.5 * (d @ (A @ d)))

        def grad(x, A=A, c=c):
            return A @ (x - c)
    elif family == "qp4":
        w = rng.uniform(0.05, 1.0, n)

        def fun(x, A=A, c=c, w=w):
            d = x - c
            return _sc(0.5 * (d @ (A @ d)) + np.sum(w * d ** 4))

        def grad(x, A=A, c=c, w=w):
            d = x - c
            return A @ d + 4 * w * d ** 3
    elif family == "qpsoft":
        B = rng.normal(0, 1, (n, n))

        def fun(x, A=A, c=c, B=B):
            d = x - c
            return 0.5 * float(d @ (A @ d)) + float(np.sum(np.logaddexp(0.0, B @ x)))

        def grad(x, A=A, c=c, B=B):
            z = B @ x
            return A @ (x - c) + B.T @ (0.5 * (1 + np.tanh(0.5 * z)))
    elif family == "qpcos":
        convex = False
        amp = rng.uniform(1.0, 6.0)
        fr = rng.uniform(2.0, 5.0, n)

        def fun(x, A=A, c=c, amp=amp, fr=fr):
            d = x - c
            return _sc(0.5 * (d @ (A @ d)) + amp * np.sum(np.cos(fr * x)))

        def grad(x, A=A, c=c, amp=amp, fr=fr):
            return A @ (x - c) - amp * fr * np.sin(fr * x)
    elif family == "osc":
        convex = False
        fr = rng.uniform(3.0, 12.0, n)
        amp = rng.uniform(0.5, 3.0)

        def fun(x, fr=fr, amp=amp, c=c):
            return _sc(np.sum(0.05 * (x - c) ** 2 + amp * np.sin(fr * x)))

        def grad(x, fr=fr, amp=amp, c=c):
            return 0.1 * (x - c) + amp * fr * np.cos(fr * x)
    elif family == "cosmix":
        # strongly non-convex: cosines of random linear forms + a weak quadratic (many rejected updates, failed searches)
        convex = False
        Am = rng.normal(0, 1, (n, n))
        wv = rng.uniform(0.5, 3.0, n)

        def fun(x, Am=Am, wv=wv, c=c):
            return _sc(np.sum(np.cos(wv * (Am @ x))) + 0.05 * (x @ x) + c @ x)

        def grad(x, Am=Am, wv=wv, c=c):
            return Am.T @ (-wv * np.sin(wv * (Am @ x))) + 0.1 * x + c
    elif family == "badscale":
        convex = True
        sc = 10.0 ** rng.uniform(-3, 3, n)

        def fun(x, sc=sc, c=c):
            return _sc(0.5 * np.sum(sc * (x - c) ** 2))

        def grad(x, sc=sc, c=c):
            return sc * (x - c)
    elif family == "expwall":
        # the repository's own abnormal-termination example generalised: steep exponential wall
        convex = True
        k = rng.uniform(3.0, 12.0)

        def fun(x, k=k):
            return float(np.sum(x + np.exp(-k * x)))

        def grad(x, k=k):
            return 1.0 - k * np.exp(-k * x)
        c = np.zeros(n)
    elif family in BENCH:
        convex = False
        fun, grad = BENCH[family]
        c = np.zeros(n)
    else:
        raise ValueError(family)
    if family == "expwall":
        # the wall exp(-k x) overflows for x << 0: this family is only posed on boxes with a finite lower bound
        box_kinds = [k for k in (box_kinds or ["lo", "box", "box", "fix"]) if k in ("lo", "box", "fix")] or ["lo", "box"]
    lb, ub, ks = make_box(rng, n, c, kinds=box_kinds, spread=box_spread or 2.0)
    mode = start or ["interior", "face", "vertex"][rng.integers(3)]
    x0 = make_start(rng, lb, ub, mode)
    if family == "ackley" and np.all(x0 == 0):
        x0 = x0 + 0.5
        x0 = np.clip(x0, lb, ub)
    return Problem(family, n, fun, grad, lb, ub, x0, convex,
                   {"cond": cond, "box": ks, "start": mode})


BENCH = {
    "rosenbrock": (lbfgsb.rosenbrock, lbfgsb.rosenbrock_grad),
    "beale": (lbfgsb.beale, lbfgsb.beale_grad),
    "sphere": (lbfgsb.sphere, lbfgsb.sphere_grad),
    "quartic": (lbfgsb.quartic, lbfgsb.quartic_grad),
    "styblinski_tang": (lbfgsb.styblinski_tang, lbfgsb.styblinski_tang_grad),
    "griewank": (lbfgsb.griewank, lbfgsb.griewank_grad),
    "rastrigin": (lbfgsb.rastrigin, lbfgsb.rastrigin_grad),
}

CONVEX = ["qp", "qp4", "qpsoft"]
NONCONVEX = ["qpcos", "osc", "cosmix", "badscale", "expwall", "rosenbrock", "beale", "styblinski_tang",
             "griewank", "rastrigin", "quartic", "sphere"]
