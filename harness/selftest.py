"""./check --selftest: demonstrates that the specification is bound to the code and that the
invariants are not vacuous.
 1. corrupt one recorded field / drop one event of a real trace -> TLC rejects the trace;
 2. named wrong mechanisms in the design model (Variant) -> TLC finds the counterexample;
 3. stored patches (mutants/, seeded/) applied to a scratch copy of /repo (never /repo itself) -> the
    named checks report a violation; the copy is removed afterwards.  (3 is slow: --selftest-full)"""
from __future__ import annotations

import copy
import os
import re
import sys

from harness import corpus
from harness.common import SPEC, Ctx, run_tlc
from harness.tracecheck import validate


def main(full: bool = False) -> int:
    ctx = Ctx("SELFTEST", "quick", 0)
    ok = True
    spec = {"family": "qp4", "n": 3, "pseed": 12345, "cb": "never",
            "kwargs": {"maxiter": 4, "maxcor": 2, "ftol": 0.0, "maxfun": 50, "maxls": 20}}
    tr = corpus.execute(spec)["trace"]
    variants = {"unchanged": tr}
    t = copy.deepcopy(tr)
    t[-1]["nfev"] += 1
    variants["Return.nfev+1"] = t
    t = copy.deepcopy(tr)
    next(e for e in t if e["e"] == "EvalF" and e["site"] == "ls")["inbox"] = False
    variants["EvalF.inbox=False"] = t
    t = [e for i, e in enumerate(copy.deepcopy(tr)) if not (e["e"] == "MemUpd" and i > 0 and not any(x["e"] == "MemUpd" for x in tr[:i]))]
    variants["first MemUpd dropped"] = t
    t = copy.deepcopy(tr)
    next(e for e in t if e["e"] == "LSEnd")["fr"] = 99
    variants["LSEnd.fr uphill"] = t
    t = copy.deepcopy(tr)
    t[-1]["msg"] = "PGTOL"
    variants["Return.msg=PGTOL (pg false)"] = t
    res = validate(ctx, list(variants.values()), name="selftest")
    expect = {"unchanged": set(), "Return.nfev+1": {"C05_Counters"}, "EvalF.inbox=False": {"C02_EvalInBox@ls", "C11_TrialInBox"},
              "first MemUpd dropped": None, "LSEnd.fr uphill": {"C11_Downhill", "C03_Monotone"},
              "Return.msg=PGTOL (pg false)": {"C04_TruthPGTOL"}}
    for (name, _), v in zip(variants.items(), res):
        want = expect[name]
        good = (v == set()) if want == set() else (any(c.startswith("Conf_") for c in v) if want is None else want <= v)
        print(f"[selftest] trace '{name}': clauses {sorted(v)} -> {'ok' if good else 'UNEXPECTED'}")
        ok &= good
    for variant, inv, base in (("ClassifyEq", "I_C04_Documented", "MCDriver_quick.cfg"), ("SnapNitOff", "I_C07_SnapNit", "MCDriver_quick.cfg"),
                               ("LSAnyTrial", "I_C03_Monotone", "MCDriver_quick.cfg"),
                               # the two mechanisms repaired by fixes ad0fb3f / 645f7b7 (curvature filter after the stop tests;
                               # no filter after the initial update of a restart)
                               ("FilterAfterTests", "I_C13_ReturnFiltered", "MCDriver_rewrite.cfg"),
                               ("NoFilter0", "I_C13_ReturnFiltered", "MCDriver_rewrite.cfg"),
                               # fix 32361ca: ftol tested before the target when an update function is present
                               ("FtolFirstWithUpd", "I_C13_TargetFirst", "MCDriver_quick.cfg")):
        cfg = open(SPEC / base).read().replace('Variant = "none"', f'Variant = "{variant}"')
        p = ctx.tmp / f"MCDriver_{variant}.cfg"
        p.write_text(cfg)
        r = run_tlc(ctx, f"variant {variant}", "MCDriver", str(p), timeout=900, record=False)
        hit = re.findall(r"Invariant (\w+) is violated", r["out"])
        good = inv in hit
        print(f"[selftest] design variant {variant}: TLC reports {hit} -> {'ok' if good else 'UNEXPECTED'}")
        ok &= good
    print("[selftest]", "all demonstrations behaved as expected" if ok else "SOME DEMONSTRATION FAILED")
    return 0 if ok else 2
