"""Shared infrastructure: run context, TLC runner, evidence writer, verdict reporting.

Exit codes: 0 property held on everything explored (KNOWN-FINDING lines allowed),
1 violation (VIOLATION line printed), 2 machinery failure.
"""
from __future__ import annotations

import atexit
import json
import os
import re
import shutil
import subprocess
import sys
import tempfile
import time
from pathlib import Path

VERIF = Path(__file__).resolve().parent.parent
SPEC = VERIF / "spec"
REPO = Path(os.environ.get("VERIF_REPO", "/repo"))
TLA_CP = "/opt/veriftools/tla/tla2tools.jar:/opt/veriftools/tla/CommunityModules-deps.jar"
NCPU = os.cpu_count() or 4


class Machinery(Exception):
    """Failure of the verification machinery itself (exit 2, never a verdict)."""


class Ctx:
    """One run of one check."""

    def __init__(self, pid: str, tier: str, seed: int):
        self.pid = pid
        self.tier = tier
        self.seed = seed
        self.t0 = time.time()
        self.tmp = Path(tempfile.mkdtemp(prefix=f"verif-{pid}-"))
        atexit.register(shutil.rmtree, self.tmp, True)
        self.violations: list[dict] = []
        self.known_hits: dict[str, int] = {}
        self.cov: dict = {}
        self.samples: list = []
        self.assumptions: list[str] = []
        self.tlc_runs: list[dict] = []
        self.conf_failures: list[str] = []
        self.known = load_known()

    @property
    def quick(self) -> bool:
        return self.tier != "thorough"

    def pick(self, q, t):
        return q if self.quick else t

    # ---------------------------------------------------------------- verdicts
    def violation(self, clause: str, record: dict, prop: str | None = None):
        """Register a violation of `prop` (default: the property being checked).

        `record` must be self-contained (input / configuration / observed vs expected).
        Known findings are matched by signature and reported as KNOWN-FINDING.
        """
        prop = prop or self.pid
        rec = dict(record)
        rec["property"] = prop
        rec["clause"] = clause
        for k in self.known:
            if k.get("status") != "known" or k["property"] != prop:
                continue
            if match_signature(k["signature"], rec):
                self.known_hits[k["id"]] = self.known_hits.get(k["id"], 0) + 1
                return
        self.violations.append(rec)

    def add_samples(self, items, limit=6):
        for it in items:
            if len(self.samples) < limit:
                self.samples.append(it)

    def add_counts(self, **kw):
        for k, v in kw.items():
            self.cov[k] = self.cov.get(k, 0) + v

    # ---------------------------------------------------------------- finish
    def finish(self, level: str, rule: str, extra: dict | None = None) -> int:
        wall = time.time() - self.t0
        cov = dict(self.cov)
        cov["rule"] = rule
        cov["samples"] = self.samples[:8] if self.samples else ["(none)"]
        cov.setdefault("evaluations", 0)
        cov.setdefault("distinct_nontrivial", 0)
        if self.tlc_runs:
            cov["states"] = sum(r.get("distinct", 0) for r in self.tlc_runs)
            cov["transitions"] = sum(r.get("generated", 0) for r in self.tlc_runs)
            cov["tlc_runs"] = [
                {k: r[k] for k in ("name", "distinct", "generated", "wall_s", "coverage") if k in r}
                for r in self.tlc_runs
            ]
        cov.setdefault("traces_validated_against_impl", 0)
        if extra:
            cov.update(extra)
        cov["known_findings_hit"] = self.known_hits
        ev = {
            "property_id": self.pid,
            "tier": "thorough" if not self.quick else "quick",
            "seed": int(self.seed),
            "level": level,
            "coverage": cov,
            "assumptions": self.assumptions,
            "wall_s": round(wall, 2),
            "violations": len(self.violations),
        }
        # mutant runs write elsewhere; extension checks (no listed property) keep their evidence apart
        evdir = Path(os.environ.get("VERIF_EVIDENCE_DIR", VERIF / ("evidence_ext" if self.pid.startswith("X") else "evidence")))
        evdir.mkdir(exist_ok=True)
        with open(evdir / f"{self.pid}.json", "w") as fh:
            json.dump(ev, fh, indent=1, default=_js)
            fh.write("\n")
        for kid, n in sorted(self.known_hits.items()):
            k = next(k for k in self.known if k["id"] == kid)
            print(f"KNOWN-FINDING: property={k['property']} {k['what']} [{kid}; {n} case(s) this run]")
        if self.violations:
            rdir = Path(os.environ.get("VERIF_REPLAY_DIR", VERIF / "replays")) / self.pid
            rdir.mkdir(parents=True, exist_ok=True)
            seen = set()
            for i, v in enumerate(self.violations[:20]):
                path = rdir / f"{getattr(self, 'file_tag', self.tier)}-{self.seed}-{i}.json"
                with open(path, "w") as fh:
                    json.dump(v, fh, indent=1, default=_js)
                key = (v["property"], v["clause"])
                tag = "" if key not in seen else " (same clause as above)"
                seen.add(key)
                print(f"VIOLATION property={v['property']} replay={path}")
                print(f"  clause: {v['clause']}{tag}")
                if "summary" in v:
                    print(f"  {v['summary']}")
            if len(self.violations) > 20:
                print(f"  ... {len(self.violations) - 20} further violations not written")
            print(f"[{self.pid}] {len(self.violations)} violation(s), {wall:.1f}s")
            return 1
        if self.conf_failures:
            print(f"MACHINERY FAILURE [{self.pid}]: {len(self.conf_failures)} trace(s) without verdict; first: "
                  f"{self.conf_failures[0]}", file=sys.stderr)
            return 2
        print(f"[{self.pid}] ok tier={self.tier} seed={self.seed} "
              f"evaluations={cov.get('evaluations')} states={cov.get('states', 0)} "
              f"traces={cov.get('traces_validated_against_impl')} {wall:.1f}s")
        return 0


def _js(o):
    import numpy as np

    if isinstance(o, (np.integer,)):
        return int(o)
    if isinstance(o, (np.floating,)):
        return float(o)
    if isinstance(o, np.ndarray):
        return o.tolist()
    if isinstance(o, (np.bool_,)):
        return bool(o)
    if isinstance(o, bytes):
        return o.hex()
    if isinstance(o, Path):
        return str(o)
    return repr(o)


# -------------------------------------------------------------------- known findings
def load_known() -> list[dict]:
    p = VERIF / "known_findings.json"
    if not p.exists():
        return []
    with open(p) as fh:
        return json.load(fh)["findings"]


def match_signature(sig: dict, rec: dict) -> bool:
    """A signature is a conjunction of field predicates on the replay record.

    {"field": value}          equality
    {"field": {"in": [...]}}  membership
    {"field": {"re": "..."}}  regex search on str(value)
    Nested fields with dots ("input.kind").
    """
    for key, want in sig.items():
        cur = rec
        ok = True
        for part in key.split("."):
            if isinstance(cur, dict) and part in cur:
                cur = cur[part]
            else:
                ok = False
                break
        if not ok:
            return False
        if isinstance(want, dict):
            if "in" in want and cur not in want["in"]:
                return False
            if "re" in want and not re.search(want["re"], str(cur)):
                return False
        elif cur != want:
            return False
    return True


# -------------------------------------------------------------------- TLC
_STATS = re.compile(r"(\d+) states generated, (\d+) distinct states found")
_COVLINE = re.compile(r"^<(\w+) line (\d+), col \d+ to line \d+, col \d+ of module (\w+)>: (\d+):(\d+)")


def run_tlc(ctx: Ctx, name: str, module: str, cfg: str | None = None, *, env: dict | None = None,
            workers: int | str = "auto", simulate: str | None = None, depth: int | None = None,
            timeout: int = 1800, coverage: bool = False, extra: list[str] | None = None,
            deadlock: bool = False, seed: int | None = None, record: bool = True,
            heap: str = "8g", cont: bool = False, split_json: int | None = None) -> dict:
    """Run TLC on spec/<module>.tla with spec/<cfg>. Returns dict(out, ok, distinct, generated...).
    split_json=k: the run prints one JSON record per state (lines starting with '"{'): they are never held in memory but
    distributed round-robin over k files (res["json_chunks"], res["json_count"]); res["out"] holds the other lines."""
    run_dir = Path(tempfile.mkdtemp(prefix="tlc-", dir=ctx.tmp))
    cfg_path = SPEC / (cfg or f"{module}.cfg")
    if not cfg_path.exists():
        cfg_path = Path(cfg)  # absolute path generated by the harness
    cmd = [
        "java", "-XX:+UseParallelGC", f"-Xmx{heap}", f"-Djava.io.tmpdir={run_dir}",
        "-cp", TLA_CP, "tlc2.TLC",
        "-metadir", str(run_dir / "meta"), "-noGenerateSpecTE",
        "-workers", str(NCPU if workers == "auto" else workers),
        "-config", str(cfg_path),
    ]
    if not deadlock:
        cmd.append("-deadlock")  # i.e. do NOT check deadlock
    if coverage:
        cmd += ["-coverage", "1"]
    if simulate:
        cmd += ["-simulate", simulate]
    if depth:
        cmd += ["-depth", str(depth)]
    if seed is not None:
        cmd += ["-seed", str(seed)]
    if cont:
        cmd.append("-continue")
    if extra:
        cmd += extra
    cmd.append(str(SPEC / f"{module}.tla"))
    e = dict(os.environ)
    e.pop("JAVA_TOOL_OPTIONS", None)
    if env:
        e.update({k: str(v) for k, v in env.items()})
    t0 = time.time()
    chunks, njson = None, 0
    try:
        if split_json:
            raw = run_dir / "stdout.txt"
            with open(raw, "w") as fh:
                p = subprocess.run(cmd, cwd=run_dir, env=e, stdout=fh, stderr=subprocess.PIPE, text=True, timeout=timeout)
            cdir = Path(tempfile.mkdtemp(prefix="recs-", dir=ctx.tmp))
            chunks = [cdir / f"{i}.jsonl" for i in range(split_json)]
            fhs = [open(c, "w") for c in chunks]
            other = []
            with open(raw) as fh:
                for line in fh:
                    if line.startswith('"{'):
                        fhs[njson % split_json].write(line)
                        njson += 1
                    else:
                        other.append(line)
            for f_ in fhs:
                f_.close()
            stdout = "".join(other)
        else:
            p = subprocess.run(cmd, cwd=run_dir, env=e, capture_output=True, text=True, timeout=timeout)
            stdout = p.stdout
    except subprocess.TimeoutExpired as ex:
        subprocess.run(["pkill", "-f", str(run_dir)], check=False)
        raise Machinery(f"TLC run {name} exceeded {timeout}s") from ex
    out = stdout + p.stderr
    res = {"name": name, "out": out, "rc": p.returncode, "wall_s": round(time.time() - t0, 2)}
    if chunks is not None:
        res["json_chunks"], res["json_count"] = [str(c) for c in chunks], njson
    m = None
    for m in _STATS.finditer(out):
        pass
    if m:
        res["generated"], res["distinct"] = int(m.group(1)), int(m.group(2))
    res["ok"] = ("No error has been found" in out) or (simulate is not None and p.returncode == 0
                                                       and "Error:" not in out)
    if coverage:
        cov = {}
        for line in out.splitlines():
            mm = _COVLINE.match(line.strip())
            if mm:
                cov[f"{mm.group(3)}.{mm.group(1)}"] = cov.get(f"{mm.group(3)}.{mm.group(1)}", 0) + int(mm.group(5))
        res["coverage"] = cov
    if record:
        ctx.tlc_runs.append(res)
    shutil.rmtree(run_dir, ignore_errors=True)
    return res


def tlc_design(ctx: Ctx, name: str, module: str, cfg: str | None = None, **kw) -> dict:
    """Design run: the specification against its own invariants. A failure here is a bug in
    the specification (exit 2), not a verdict about the code."""
    kw.setdefault("coverage", True)
    res = run_tlc(ctx, name, module, cfg, **kw)
    if not res["ok"]:
        tail = "\n".join(res["out"].splitlines()[-60:])
        raise Machinery(f"design run {name} ({module}) failed - specification bug:\n{tail}")
    return res


_PRINT = re.compile(r"^<<(.*)>>$")


def parse_printt(out: str, tag: str) -> list[list]:
    """Extract `<<"TAG", ...>>` tuples printed with PrintT (TLC pretty-prints long values over
    several lines, so values are found by bracket matching, not line by line)."""
    rows = []
    pat = re.compile(r'<<\s*"' + re.escape(tag) + r'"')
    pos = 0
    while True:
        m = pat.search(out, pos)
        if not m:
            break
        i = m.start()
        depth = 0
        j = i
        instr = False
        while j < len(out):
            ch = out[j]
            if instr:
                if ch == "\\":
                    j += 1
                elif ch == '"':
                    instr = False
            elif ch == '"':
                instr = True
            elif out.startswith("<<", j):
                depth += 1
                j += 1
            elif out.startswith(">>", j):
                depth -= 1
                j += 1
                if depth == 0:
                    break
            j += 1
        rows.append(parse_tla_value(out[i:j + 1]))
        pos = j + 1
    return rows


def parse_tla_value(s: str):
    """Parse a printed TLA+ value (ints, strings, booleans, tuples, sets, records)."""
    pos = 0
    n = len(s)

    def ws():
        nonlocal pos
        while pos < n and s[pos] in " \n\t":
            pos += 1

    def val():
        nonlocal pos
        ws()
        if s.startswith("<<", pos):
            pos += 2
            items = seq(">>")
            return items
        if s[pos] == "{":
            pos += 1
            return {"__set__": seq("}")}
        if s[pos] == "[":
            pos += 1
            rec = {}
            ws()
            if s[pos] == "]":
                pos += 1
                return rec
            while True:
                ws()
                m = re.compile(r"[A-Za-z_0-9]+").match(s, pos)
                key = m.group(0)
                pos = m.end()
                ws()
                assert s.startswith("|->", pos), s[pos:pos + 20]
                pos += 3
                rec[key] = val()
                ws()
                if s[pos] == ",":
                    pos += 1
                    continue
                assert s[pos] == "]"
                pos += 1
                return rec
        if s[pos] == '"':
            j = pos + 1
            buf = []
            while s[j] != '"':
                if s[j] == "\\":
                    j += 1
                buf.append(s[j])
                j += 1
            pos = j + 1
            return "".join(buf)
        m = re.compile(r"-?\d+").match(s, pos)
        if m:
            pos = m.end()
            return int(m.group(0))
        m = re.compile(r"[A-Za-z_][A-Za-z_0-9]*").match(s, pos)
        if m:
            pos = m.end()
            w = m.group(0)
            return True if w == "TRUE" else False if w == "FALSE" else w
        raise ValueError(f"cannot parse TLA value at {pos}: {s[pos:pos + 40]!r}")

    def seq(close):
        nonlocal pos
        items = []
        ws()
        if s.startswith(close, pos):
            pos += len(close)
            return items
        while True:
            items.append(val())
            ws()
            if s[pos] == ",":
                pos += 1
                continue
            assert s.startswith(close, pos), s[pos:pos + 20]
            pos += len(close)
            return items

    return val()


def sany_all() -> int:
    bad = 0
    tmp = tempfile.mkdtemp(prefix="verif-sany-")      # SANY unpacks the standard modules into java.io.tmpdir
    try:
        for f in sorted(SPEC.glob("*.tla")):
            p = subprocess.run(["java", f"-Djava.io.tmpdir={tmp}", "-cp", TLA_CP, "tla2sany.SANY", str(f)], cwd=SPEC,
                               capture_output=True, text=True)
            if p.returncode != 0 or "Semantic errors" in p.stdout or "Could not parse" in p.stdout \
                    or "*** Errors" in p.stdout or "Fatal" in p.stdout:
                print(f"SANY FAILED {f.name}\n{p.stdout[-2000:]}")
                bad += 1
    finally:
        shutil.rmtree(tmp, ignore_errors=True)
    return bad


def shard(items: list, nshards: int) -> list[list]:
    nshards = max(1, min(nshards, len(items)))
    return [items[i::nshards] for i in range(nshards)]
