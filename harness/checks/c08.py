"""C08: the Cauchy point is the first local minimiser along the projected path."""
import json

from harness import lattice
from harness.common import Machinery

RULE = ("TLC enumerates the whole structural lattice (per variable: box kind free/lower/upper/two-sided/degenerate x "
        "position 0..3 x gradient -2..2; memory menu of 0..2 positive-curvature pairs), checks on every input that the "
        "segment-walk algorithm equals the declarative first local minimiser, feasibility, model decrease, on-path; "
        "each input is replayed into the real get_cauchy_point (matrices from the real update routine) and compared "
        "with the exact rational result (pinned coordinates exactly, free ones to 1e-9). distinct_nontrivial = inputs "
        "with at least one finite positive breakpoint")


TIES3 = {"kinds": ["lo", "box"], "xs": [0, 1, 2], "g": "nz"}   # n = 3 slice rich in tied breakpoints


def lattices(ctx):
    if ctx.quick:
        return [(1, [0, 1, 2, 3], None), (2, [0, 1, 3], None), (3, [1, 3], TIES3)]
    return [(1, [0, 1, 2, 3], None), (2, [0, 1, 2, 3, 4], None), (3, [0, 1, 2, 3], TIES3),
            (3, [1], {"kinds": ["free", "lo", "hi", "box", "fix"], "xs": [0, 1, 3], "g": "full"})]


def run(ctx, which="cauchy"):
    total = nontrivial = 0
    verdicts = {}
    for n, mems, sub in lattices(ctx):
        recs = lattice.enumerate_lattice(ctx, n, mems, shards=(1 if n == 1 else 16 if n == 2 else 24), sub=sub)
        res = lattice.replay(recs, which)
        total += len(recs)
        # knife edges (stationary point of a segment exactly on its end breakpoint): a single flip can be a
        # rounding matter, so both answers are accepted input by input - but on these lattices the exact data
        # make the code follow the definition on every such input; a systematic preference for stopping at
        # the kink (>= 10 inputs and >= 1 % of the knife-edge inputs) is not rounding
        if which == "cauchy":
            n_edge = sum(1 for r in recs if r["knife"])
            flips = [(r, d) for r, (v, d) in zip(recs, res) if v == "knife"]
            ctx.cov.setdefault("knife_edge_inputs", 0)
            ctx.cov.setdefault("knife_edge_flips", 0)
            ctx.cov["knife_edge_inputs"] += n_edge
            ctx.cov["knife_edge_flips"] += len(flips)
            if len(flips) >= 10 and len(flips) >= 0.01 * n_edge:
                for r, d in flips[:5]:
                    ctx.violation("C08_StopsAtStationaryKink",
                                  {"kind": "lattice-cauchy", "verdict": "knife-systematic", "input": lattice.slim(r), "observed": d,
                                   "flips": len(flips), "knife_edge_inputs": n_edge,
                                   "summary": f"{len(flips)} of {n_edge} knife-edge inputs stop at the kink although the model still decreases beyond it; e.g. n={r['n']} mem={r['mem']} x={r['x']} g={r['g']}"})
        for rec, (v, det) in zip(recs, res):
            verdicts[v] = verdicts.get(v, 0) + 1
            if any(p for p in rec["pin"]) or rec["free"]:
                nontrivial += 1
            if v.startswith("bad") or v == "seqtie":
                ctx.violation(f"{'C08' if which == 'cauchy' else 'C09'}_{v}",
                              {"kind": f"lattice-{which}", "verdict": v, "input": lattice.slim(rec), "observed": det, "record": rec,
                               "summary": f"n={rec['n']} mem={rec['mem']} x={rec['x']} g={rec['g']} lo={rec['lo']} hi={rec['hi']} -> {v}"})
        ctx.add_samples([lattice.slim(r) for r in recs[:2]])
    ctx.add_counts(evaluations=total, distinct_nontrivial=nontrivial)
    ctx.cov["verdicts"] = verdicts
    ctx.cov["exhaustive"] = True
    # code -> spec: the kernel calls intercepted in real runs (n <= 10, 0..maxcor pairs), judged by DriverTrace on facts
    # computed from the real arrays and an independent dense model (feasibility, resting variables unmoved, model
    # non-increase, first local minimiser / truncated Newton point within a conditioning-aware tolerance)
    import numpy as np

    from harness import corpus, drivercheck, problems
    rng = np.random.default_rng([ctx.seed, 8 if which == "cauchy" else 9])
    dspecs = []
    for _ in range(ctx.pick(300, 3000)):
        s = corpus.rand_spec(rng, problems.CONVEX + ["rosenbrock", "qpcos", "styblinski_tang", "beale", "osc"], nmax=10,
                             allow_target=False, allow_cb=False, small_budgets=False)
        s["kwargs"]["maxiter"] = 40
        s["box_kinds"] = ["free", "lo", "up", "box", "box", "fix"]
        dspecs.append(s)
    drivercheck.run_traces(ctx, dspecs, ("C08_",) if which == "cauchy" else ("C09_",), label=f"kernel-{which}")
    return ctx.finish("model_checking", RULE)


def replay(ctx, path, which="cauchy"):
    rec = json.load(open(path))
    if rec.get("kind") == "driver-trace":
        from harness import drivercheck
        return drivercheck.replay(ctx, path, ("C08_",) if which == "cauchy" else ("C09_",))
    if "record" not in rec:
        raise Machinery("this replay file carries no lattice record; re-run ./check (deterministic)")
    r = rec["record"]
    mats = lattice.real_mats(r)
    v, det = (lattice.check_cauchy if rec["kind"].endswith("cauchy") else lattice.check_subspace)(r, mats)
    print(json.dumps({"verdict": v, "observed": det, "expected": {"xcp": r["xcp"], "xbar": r["xbar"], "t": r["t"]}}, indent=1))
    if v != "ok" and v != "knife":
        ctx.violation(f"{ctx.pid}_{v}", {"kind": rec["kind"], "input": lattice.slim(r), "observed": det})
    ctx.add_counts(evaluations=2, distinct_nontrivial=2)
    return ctx.finish("model_checking", "replay of one lattice record")
