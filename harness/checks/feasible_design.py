"""Design run of Feasible.tla (shared by C02, C11, C16)."""
from harness.common import SPEC, tlc_design


def run(ctx):
    if (SPEC / "Feasible.tla").exists():
        tlc_design(ctx, "design:Feasible", "Feasible", "Feasible.cfg")
