"""Design runs of Feasible.tla (shared by C02, C11, C16): rounding as an adversary."""
import re

from harness.common import Machinery, run_tlc, tlc_design

SITE_OF_CODE = {
    # site of the model -> where the arithmetic shape occurs in lbfgsb
    "Clip": "base.py clip2bounds (start point)",
    "Pin": "cauchy.py variable fixed at its breakpoint",
    "ClippedMaxStepTrial": "linesearch.py trial point x0 + alpha*d projected onto the box",
    "ClippedUnitStep": "main.py iterate update projected onto the box",
    "Stencil": "scalar_function.py / scipy _numdiff bounded stencil",
}


def run(ctx):
    tlc_design(ctx, "design:Feasible(safe sites, all roundings)", "Feasible", "Feasible.cfg", workers=4)
    # the unprojected shapes are expected to be refuted: TLC must find a rounding that leaves the box
    res = run_tlc(ctx, "design:Feasible(raw sites refuted)", "Feasible", "Feasible_raw.cfg", workers=4, cont=True)
    refuted = sorted(set(re.findall(r"Invariant (Raw_\w+)_Feasible is violated", res["out"])))
    if len(refuted) != 3:
        raise Machinery(f"Feasible.tla: expected the three raw sites to be refuted, got {refuted}")
    ctx.cov["feasible_model"] = {"safe_for_all_roundings": sorted(SITE_OF_CODE), "refuted_without_projection": refuted}
