"""C09: subspace minimisation returns the box-truncated Newton point of the model."""
from harness.checks import c08

c08_run = c08.run


def run(ctx):
    c08.RULE = ("TLC enumerates the structural lattice (see C08) and checks on every input, at the exact Cauchy point: "
                "active variables fixed, dhat solves the reduced Newton system, alpha* maximal <= 1, model non-increase, "
                "descent; each input is replayed into the real get_freev + subspace_minimization (real matrices, exact "
                "Cauchy point) and compared with the exact rational xbar (active coordinates exactly, free ones to 1e-9); "
                "distinct_nontrivial = inputs with a non-empty free set or a pinned variable")
    return c08_run(ctx, "subspace")


def replay(ctx, path):
    return c08.replay(ctx, path, "subspace")
