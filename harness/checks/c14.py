"""C14: runs are deterministic, isolated from each other and do not touch their inputs."""
import copy
import io
import json
import logging
import multiprocessing as mp
import threading

import numpy as np

from harness import corpus, equiv, problems
from harness.checks.c20 import shared_digest
from harness.common import NCPU, Machinery, parse_printt, run_tlc
from harness.tracecheck import validate

RULE = ("design: TLC enumerates every interleaving of the first K yield points (objective/gradient calls) of two runs "
        "(K = 4: 70 schedules, K = 6: 924) and every nesting (run B inside A's j-th call), with Isolation / "
        "SharedUnchanged invariants on the discipline 'module-level cells are read-only after import'; spec->code: every "
        "emitted schedule is replayed on two threads with a hand-off scheduler (and every nesting by calling B inside A's "
        "objective), results and evaluation logs compared bit-for-bit with the solo runs via Equiv.tla (exact mode), "
        "digest of the shared cells at every yield; code->spec: repeated calls, read-only inputs, input digests before/"
        "after, iprint in {-1,0,1,99,101} x logger on/off, restart twice from the same checkpoint object - merged traces "
        "validated by TLC; distinct = (problem pair, schedule) and (run, variant)")


class Gate:
    """Hand-off scheduler: the k-th gated call of thread `me` proceeds only at its turn in `order`."""

    def __init__(self, order):
        self.order = list(order)
        self.pos = 0
        self.cv = threading.Condition()
        self.done = set()
        self.digests = []

    def enter(self, me):
        with self.cv:
            while True:
                # skip tokens of finished threads
                while self.pos < len(self.order) and self.order[self.pos] in self.done:
                    self.pos += 1
                if self.pos >= len(self.order) or me not in self.order[self.pos:]:
                    return False          # my gated calls are used up: run free
                if self.order[self.pos] == me:
                    return True
                self.cv.wait(timeout=10.0)

    def leave(self, me, gated):
        with self.cv:
            if gated:
                self.digests.append(shared_digest())
                self.pos += 1
            self.cv.notify_all()

    def finish(self, me):
        with self.cv:
            self.done.add(me)
            self.cv.notify_all()


def jac_arg(jm, grad):
    """The `jac` argument of a run: the exact gradient or one of the finite-difference modes."""
    return grad if jm == "exact" else (None if jm == "none" else jm)


def solo(p, kw, jm="exact"):
    import lbfgsb

    lg = equiv.EvalLog(p.fun, p.grad)
    r = lbfgsb.minimize_lbfgsb(x0=p.x0, fun=lg.fun, jac=jac_arg(jm, lg.grad), bounds=p.bounds, **kw)
    return r, lg.pts


def threaded(pa, kwa, pb, kwb, order, jma="exact", jmb="exact"):
    import lbfgsb

    gate = Gate(order)
    out = {}

    def runner(me, p, kw, jm):
        lg = equiv.EvalLog(p.fun, p.grad)

        def f(x):
            g = gate.enter(me)
            try:
                return lg.fun(x)
            finally:
                gate.leave(me, g)

        def gr(x):
            g = gate.enter(me)
            try:
                return lg.grad(x)
            finally:
                gate.leave(me, g)

        try:
            r = lbfgsb.minimize_lbfgsb(x0=p.x0, fun=f, jac=jac_arg(jm, gr), bounds=p.bounds, **kw)
            out[me] = (r, lg.pts, None)
        except Exception as ex:  # noqa: BLE001
            out[me] = (None, lg.pts, ex)
        finally:
            gate.finish(me)

    ta = threading.Thread(target=runner, args=("A", pa, kwa, jma))
    tb = threading.Thread(target=runner, args=("B", pb, kwb, jmb))
    ta.start()
    tb.start()
    ta.join(1200)
    tb.join(1200)
    if ta.is_alive() or tb.is_alive():
        raise Machinery("scheduler deadlock")
    return out, gate.digests


def nested(pa, kwa, pb, kwb, j, jma="exact", jmb="exact"):
    import lbfgsb

    la = equiv.EvalLog(pa.fun, pa.grad)
    inner = {}
    n = {"c": 0}

    def f(x):
        n["c"] += 1
        if n["c"] == j and "r" not in inner:
            inner["r"], inner["pts"] = solo(pb, kwb, jmb)
        return la.fun(x)

    r = lbfgsb.minimize_lbfgsb(x0=pa.x0, fun=f, jac=jac_arg(jma, la.grad), bounds=pa.bounds, **kwa)
    return r, la.pts, inner


def pair_job(args):
    import warnings

    warnings.simplefilter("ignore")
    np.seterr(all="ignore")
    sa, sb, orders, nest_js = args
    pa, pb = corpus.make_problem(sa), corpus.make_problem(sb)
    kwa, kwb = dict(sa["kwargs"]), dict(sb["kwargs"])
    jma, jmb = sa.get("jac", "exact"), sb.get("jac", "exact")
    ra, la = solo(pa, kwa, jma)
    rb, lb_ = solo(pb, kwb, jmb)
    ra2, la2 = solo(pa, kwa, jma)
    sd = shared_digest()
    traces = [("repeat", "", equiv.merge("C14_Repeat", True, la, la2, equiv.result_fields(ra, ra2)))]
    for order in orders:
        out, digs = threaded(pa, kwa, pb, kwb, order, jma, jmb)
        for me, (r0, l0) in (("A", (ra, la)), ("B", (rb, lb_))):
            r, pts, ex = out[me]
            if ex is not None:
                tr = equiv.merge("C14_Threads", True, [], [], {"no_exception_" + type(ex).__name__: False})
            else:
                fields = equiv.result_fields(r0, r)
                fields["shared_cells_unchanged"] = all(d == sd for d in digs)
                tr = equiv.merge("C14_Threads", True, l0, pts, fields)
            traces.append(("threads", "".join(order) + ":" + me, tr))
    for j in nest_js:
        try:
            r, pts, inner = nested(pa, kwa, pb, kwb, j, jma, jmb)
        except Exception as ex:  # noqa: BLE001 - the solo runs of the same calls returned: an exception here is a verdict
            traces.append(("nested-outer", str(j), equiv.merge("C14_Nested", True, [], [], {"no_exception_" + type(ex).__name__: False})))
            continue
        traces.append(("nested-outer", str(j), equiv.merge("C14_Nested", True, la, pts, equiv.result_fields(ra, r))))
        if "r" in inner:
            traces.append(("nested-inner", str(j), equiv.merge("C14_Nested", True, lb_, inner["pts"], equiv.result_fields(rb, inner["r"]))))
    return {"specs": [sa, sb], "traces": traces}


def variants_job(spec):
    """Inputs untouched, read-only inputs, logging has no influence, restart twice."""
    import warnings

    warnings.simplefilter("ignore")
    np.seterr(all="ignore")
    import lbfgsb

    p = corpus.make_problem(spec)
    kw = dict(spec["kwargs"])
    traces = []
    x0 = np.array(p.x0, copy=True)
    bounds = np.array(p.bounds, copy=True)
    lg0 = equiv.EvalLog(p.fun, p.grad)
    r0 = lbfgsb.minimize_lbfgsb(x0=x0, fun=lg0.fun, jac=lg0.grad, bounds=bounds, **kw)
    f = {"x0_unmodified": bool(np.array_equal(x0, p.x0)), "bounds_unmodified": bool(np.array_equal(bounds, p.bounds))}
    # read-only inputs are accepted
    x0r, br = np.array(p.x0, copy=True), np.array(p.bounds, copy=True)
    x0r.setflags(write=False)
    br.setflags(write=False)
    try:
        lg1 = equiv.EvalLog(p.fun, p.grad)
        r1 = lbfgsb.minimize_lbfgsb(x0=x0r, fun=lg1.fun, jac=lg1.grad, bounds=br, **kw)
        f.update({"readonly_" + k: v for k, v in equiv.result_fields(r0, r1).items()})
    except Exception as ex:  # noqa: BLE001
        f["readonly_inputs_accepted_" + type(ex).__name__] = False
    traces.append(("inputs", "", equiv.merge("C14_Inputs", True, [], [], f)))
    # a user gradient that writes into ONE buffer it keeps and returns that buffer at every call (and, second variant,
    # a read-only array it hands out): the run is the run with fresh arrays, a finished result does not change when
    # the buffer is reused by a later run, and the user's arrays are not written to - with and without a scaler
    for sc_val in (None, 4.0):
        kws = dict(kw)
        if sc_val is not None:
            kws["gradient_scaler"] = (lambda x, g, lb, ub, v=sc_val: v)
        lgp = equiv.EvalLog(p.fun, p.grad)
        rp = lbfgsb.minimize_lbfgsb(x0=p.x0, fun=lgp.fun, jac=lgp.grad, bounds=p.bounds, **kws)
        buf = np.zeros(p.n)
        lgb = equiv.EvalLog(p.fun, p.grad)

        def gbuf(x, lgb=lgb, buf=buf):
            buf[...] = lgb.grad(x)
            return buf

        fb = {}
        try:
            rb1 = lbfgsb.minimize_lbfgsb(x0=p.x0, fun=lgb.fun, jac=gbuf, bounds=p.bounds, **kws)
            snap = copy.deepcopy(rb1)
            fb.update({"same_" + k: v for k, v in equiv.result_fields(rp, rb1).items()})
            lgb2 = equiv.EvalLog(p.fun, p.grad)
            lbfgsb.minimize_lbfgsb(x0=np.clip(p.x0 + 0.37, p.lb, p.ub), fun=lgb2.fun,
                                   jac=(lambda x, l2=lgb2, buf=buf: (buf.__setitem__(Ellipsis, l2.grad(x)), buf)[1]), bounds=p.bounds, **kws)
            fb.update({"earlier_result_unchanged_" + k: v for k, v in equiv.result_fields(snap, rb1).items()})
        except Exception as ex:  # noqa: BLE001
            fb["no_exception_" + type(ex).__name__] = False
        traces.append(("buffered-gradient", f"scaler={sc_val}", equiv.merge("C14_UserBuffer", True, lgp.pts, lgb.pts, fb)))
        lgr = equiv.EvalLog(p.fun, p.grad)

        def gro(x, lgr=lgr):
            g = np.array(lgr.grad(x), dtype=float)
            g.setflags(write=False)
            return g

        try:
            rr_ = lbfgsb.minimize_lbfgsb(x0=p.x0, fun=lgr.fun, jac=gro, bounds=p.bounds, **kws)
            fr_ = {"same_" + k: v for k, v in equiv.result_fields(rp, rr_).items()}
        except Exception as ex:  # noqa: BLE001
            fr_ = {"readonly_gradient_accepted_" + type(ex).__name__: False}
        traces.append(("readonly-gradient", f"scaler={sc_val}", equiv.merge("C14_UserBuffer", True, lgp.pts, lgr.pts, fr_)))
    # logging configuration has no influence on any numerical output
    for iprint in (-1, 0, 1, 99, 101):
        for with_logger in (False, True):
            logger = None
            if with_logger:
                logger = logging.getLogger(f"verif-c14-{spec['pseed']}-{iprint}")
                logger.handlers = [logging.StreamHandler(io.StringIO())]
                logger.propagate = False
                logger.setLevel(logging.INFO)
            lg = equiv.EvalLog(p.fun, p.grad)
            try:
                r = lbfgsb.minimize_lbfgsb(x0=p.x0, fun=lg.fun, jac=lg.grad, bounds=p.bounds, iprint=iprint, logger=logger, **kw)
                tr = equiv.merge("C14_Logging", True, lg0.pts, lg.pts, equiv.result_fields(r0, r))
            except Exception as ex:  # noqa: BLE001
                tr = equiv.merge("C14_Logging", True, [], [], {"no_exception_" + type(ex).__name__: False})
            traces.append(("logging", f"iprint={iprint} logger={with_logger}", tr))
    # ... also when an update function rewrites the stored gradients (the curvature filter has a logging branch)
    def mk_upd():
        n = {"c": 0}

        def upd(x, f0, f0_old, grad, X, G):
            n["c"] += 1
            if n["c"] == 3:
                from collections import deque
                return f0, f0_old, grad, deque((-g if i % 2 else g.copy()) for i, g in enumerate(G))
            return f0, f0_old, grad, G
        return upd

    base_u = None
    for with_logger in (False, True):
        logger = None
        if with_logger:
            logger = logging.getLogger(f"verif-c14u-{spec['pseed']}")
            logger.handlers = [logging.StreamHandler(io.StringIO())]
            logger.propagate = False
            logger.setLevel(logging.INFO)
        lg = equiv.EvalLog(p.fun, p.grad)
        try:
            r = lbfgsb.minimize_lbfgsb(x0=p.x0, fun=lg.fun, jac=lg.grad, bounds=p.bounds, update_fun_def=mk_upd(),
                                       iprint=1 if with_logger else -1, logger=logger, **kw)
            cur = (r, lg.pts, None)
        except Exception as ex:  # noqa: BLE001
            cur = (None, lg.pts, ex)
        if base_u is None:
            base_u = cur
        else:
            if (base_u[2] is None) != (cur[2] is None):
                tr = equiv.merge("C14_Logging", True, [], [], {"same_outcome_with_and_without_logger": False})
            elif cur[2] is not None:
                tr = equiv.merge("C14_Logging", True, base_u[1], cur[1], {"same_exception": type(base_u[2]) is type(cur[2])})
            else:
                tr = equiv.merge("C14_Logging", True, base_u[1], cur[1], equiv.result_fields(base_u[0], cur[0]))
            traces.append(("logging", "update_fun_def rewrite, logger on/off", tr))
    # restart twice from the same checkpoint object; checkpoint untouched; read-only checkpoint accepted
    kw1 = dict(kw)
    kw1["maxiter"] = max(1, min(3, kw.get("maxiter", 5) - 1))
    ck = lbfgsb.minimize_lbfgsb(x0=p.x0, fun=p.fun, jac=p.grad, bounds=p.bounds, **kw1)
    if ck.hess_inv.sk.shape[0] > 0:
        ck_copy = copy.deepcopy(ck)
        kw2 = dict(kw)
        kw2["maxiter"] = kw1["maxiter"] + 3
        scaler = (lambda x, g, lb, ub: 2.0) if spec.get("ck_scaler") else None
        res = []
        err = None
        for rep in range(2):
            lg = equiv.EvalLog(p.fun, p.grad)
            try:
                res.append((lbfgsb.minimize_lbfgsb(x0=ck.x, fun=lg.fun, jac=lg.grad, bounds=p.bounds, checkpoint=ck,
                                                   gradient_scaler=scaler, **kw2), lg.pts))
            except Exception as ex:  # noqa: BLE001
                err = ex
        ff = {"checkpoint_x_unmodified": bool(np.array_equal(ck.x, ck_copy.x)),
              "checkpoint_jac_unmodified": bool(np.array_equal(ck.jac, ck_copy.jac)),
              "checkpoint_pairs_unmodified": bool(np.array_equal(ck.hess_inv.sk, ck_copy.hess_inv.sk) and np.array_equal(ck.hess_inv.yk, ck_copy.hess_inv.yk)),
              "checkpoint_scalars_unmodified": bool(ck.fun == ck_copy.fun and ck.nit == ck_copy.nit and ck.nfev == ck_copy.nfev and ck.message == ck_copy.message)}
        if err is not None:
            ff["restart_no_exception_" + type(err).__name__] = False
        if len(res) == 2:
            tr = equiv.merge("C14_RestartTwice", True, res[0][1], res[1][1], {**equiv.result_fields(res[0][0], res[1][0]), **ff})
        else:
            tr = equiv.merge("C14_RestartTwice", True, [], [], ff)
        traces.append(("restart-twice", "scaler" if scaler else "", tr))
        ro = copy.deepcopy(ck_copy)
        for a in (ro.x, ro.jac, ro.hess_inv.sk, ro.hess_inv.yk):
            a.setflags(write=False)
        try:
            lg = equiv.EvalLog(p.fun, p.grad)
            rro = lbfgsb.minimize_lbfgsb(x0=ro.x, fun=lg.fun, jac=lg.grad, bounds=p.bounds, checkpoint=ro, **kw2)
            ref = lbfgsb.minimize_lbfgsb(x0=ck_copy.x, fun=p.fun, jac=p.grad, bounds=p.bounds, checkpoint=copy.deepcopy(ck_copy), **kw2)
            tr = equiv.merge("C14_ReadOnlyCheckpoint", True, [], [], equiv.result_fields(ref, rro))
        except Exception as ex:  # noqa: BLE001
            tr = equiv.merge("C14_ReadOnlyCheckpoint", True, [], [], {"accepted_" + type(ex).__name__: False})
        traces.append(("readonly-checkpoint", "", tr))
    return {"specs": [spec], "traces": traces}


def schedules(ctx, cfg):
    res = run_tlc(ctx, f"design:{cfg}", "Interleave", cfg, workers=1, timeout=3600)
    if not res["ok"]:
        raise Machinery("design run Interleave failed:\n" + res["out"][-2000:])
    return [row[1] for row in parse_printt(res["out"], "SCHED")]


def mk_spec(rng, K):
    fam = (problems.CONVEX + ["rosenbrock", "qpcos", "osc"])[int(rng.integers(6))]
    return {"family": fam, "n": int(rng.integers(2, 7)), "pseed": int(rng.integers(1 << 30)),
            "kwargs": {"maxcor": int(rng.choice([1, 3, 10])), "ftol": 0.0, "maxiter": int(rng.integers(3, 9)),
                       "maxfun": 60, "maxls": int(rng.choice([3, 20]))}}


def run(ctx):
    sch = schedules(ctx, "Interleave_quick.cfg" if ctx.quick else "Interleave_thorough.cfg")
    nest = schedules(ctx, "Interleave_nested.cfg")
    nest_js = sorted({s.index("B") for s in nest if "B" in s})
    rng = np.random.default_rng([ctx.seed, 14])
    npairs = ctx.pick(6, 12)
    jobs = []
    per = (len(sch) + npairs - 1) // npairs if ctx.quick else len(sch)
    for i in range(npairs):
        orders = sch[i * per:(i + 1) * per] if ctx.quick else sch
        sa, sb = mk_spec(rng, 4), mk_spec(rng, 4)
        if i % 2 == 1:
            # runs with finite-difference gradients of different schemes / steps / boxes, interleaved at every
            # objective call (stencil evaluations included) and nested
            modes = [("2-point", "3-point"), ("none", "2-point"), ("3-point", "none"), ("none", "none"),
                     ("exact", "3-point"), ("2-point", "2-point")][(i // 2) % 6]
            for s_, jm in ((sa, modes[0]), (sb, modes[1])):
                s_["jac"] = jm
                s_["family"] = ["qp", "qp4", "qpcos"][int(rng.integers(3))]
                s_["box_kinds"] = ["lo", "up", "box", "box", "free"]
                if jm == "none":
                    s_["kwargs"]["eps"] = float(rng.choice([1e-8, 1e-6, 1e-5]))
                elif jm != "exact":
                    s_["kwargs"]["finite_diff_rel_step"] = [None, 1e-7, 1e-5][int(rng.integers(3))]
        jobs.append((sa, sb, orders, nest_js))
    vspecs = []
    for i in range(ctx.pick(24, 240)):
        s = mk_spec(rng, 4)
        s["ck_scaler"] = (i % 3 == 0)
        vspecs.append(s)
    with mp.get_context("fork").Pool(NCPU) as pool:
        res = pool.map(pair_job, jobs, chunksize=1) + pool.map(variants_job, vspecs, chunksize=2)
    flat = [(r["specs"], kind, tag, tr) for r in res for (kind, tag, tr) in r["traces"]]
    viols = validate(ctx, [t[3] for t in flat], module="Equiv", name="equiv-c14")
    for (specs, kind, tag, tr), v in zip(flat, viols):
        for c in sorted(v):
            ctx.violation(c, {"kind": "isolation", "relation": kind, "variant": tag, "specs": specs, "trace": tr[-3:],
                              "summary": f"{kind} {tag} {[s['family'] for s in specs]}"})
    ctx.add_counts(evaluations=len(flat), distinct_nontrivial=len({(json.dumps(s, sort_keys=True), kd, tg) for s, kd, tg, _ in flat}))
    ctx.cov["relations"] = {}
    for _, kd, _, _ in flat:
        ctx.cov["relations"][kd] = ctx.cov["relations"].get(kd, 0) + 1
    ctx.cov["schedules_enumerated_by_tlc"] = len(sch)
    ctx.cov["nestings"] = nest_js
    ctx.add_samples([{"relation": kd, "variant": tg, "trace_tail": tr[-2:]} for _, kd, tg, tr in flat[:4]])
    return ctx.finish("model_checking", RULE)


def replay(ctx, path):
    raise Machinery("deterministic: re-run ./check C14")
