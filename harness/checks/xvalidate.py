"""Extension beyond the listed properties: input validation (Validate.tla).  TLC enumerates every combination of
input defects and emits the expected outcome (first test that fires); each is replayed on the real entry point;
a rejected call must raise ValueError with the documented message before any user callable is invoked."""
import numpy as np

from harness.common import Machinery, parse_printt, run_tlc


def build(inp):
    from scipy.optimize import LbfgsInvHessProduct, OptimizeResult

    n = 3
    x0 = np.array([0.5, 1.0, -0.5])
    bounds = np.array([[-1.0, 2.0]] * n)
    if inp["emptyX0"]:
        x0 = np.array([])
        bounds = np.zeros((0, 2))
    if inp["boundsLen"]:
        bounds = np.array([[-1.0, 2.0]] * (n + 1))
    if inp["lbGtUb"]:
        bounds = bounds.copy()
        bounds[0] = [2.0, -1.0]
    if inp["x0Outside"] and not inp["emptyX0"]:
        x0 = x0.copy()
        x0[1] = 5.0
    ck = None
    if inp["ckXMismatch"] or inp["ckDimMismatch"]:
        cx = x0.copy() if x0.size else np.zeros(1)
        if inp["ckXMismatch"]:
            cx = cx + 0.25
        dim = (cx.size + 1) if inp["ckDimMismatch"] else cx.size
        ck = OptimizeResult(x=cx, fun=1.0, jac=np.ones(cx.size), nit=2, nfev=3, njev=3, status=1, message="m", success=True,
                            hess_inv=LbfgsInvHessProduct(np.ones((1, dim)), np.ones((1, dim))))
    jac = "not-a-mode" if inp["badJac"] else None
    return x0, bounds, ck, jac


def run(ctx):
    import lbfgsb

    res = run_tlc(ctx, "design:Validate", "Validate", "Validate.cfg", workers=2)
    if not res["ok"]:
        raise Machinery("design run Validate failed:\n" + res["out"][-2000:])
    rows = parse_printt(res["out"], "VALIDATE")
    bad = 0
    for _, inp, outcome in rows:
        calls = {"n": 0}

        def fun(x):
            calls["n"] += 1
            return float(x @ x)

        def grad(x):
            calls["n"] += 1
            return 2 * x

        x0, bounds, ck, jac = build(inp)
        try:
            lbfgsb.minimize_lbfgsb(x0=x0, fun=fun, jac=jac if jac is not None else grad, bounds=bounds, checkpoint=ck, maxiter=2)
            got = "accepted"
        except ValueError as ex:
            got = str(ex)
        except Exception as ex:  # noqa: BLE001
            got = f"{type(ex).__name__}: {ex}"
        ok = (got == "accepted") if outcome == "accepted" else (outcome in got and calls["n"] == 0)
        if not ok:
            bad += 1
            print(f"VALIDATE MISMATCH defects={[k for k, v in inp.items() if v]}: expected '{outcome}', got '{got[:90]}', user calls={calls['n']}")
    ctx.add_counts(evaluations=len(rows), distinct_nontrivial=len(rows))
    ctx.add_samples([{"defects": [k for k, v in r[1].items() if v], "expected": r[2]} for r in rows[:4]])
    ctx.cov["mismatches"] = bad
    rc = ctx.finish("model_checking", "Validate.tla exhausted over all combinations of input defects; each replayed on the real entry point (message class, no user call before rejection)")
    if bad:
        print("extension check XVALIDATE: input validation deviates from Validate.tla (not one of the listed properties)")
        return 2
    return rc


def replay(ctx, path):
    return run(ctx)
