"""C18: the returned inverse-Hessian operator is built from genuine curvature pairs."""
import json

import numpy as np

from harness import corpus, drivercheck, problems
from harness.checks import c10

PREFIX = ("C18_",)
RULE = ("design: MCDriver (pairs = consecutive retained iterates, count <= maxcor, chronological) and Memory.tla "
        "(exact two-loop inverse diagonal on the integer lattice); spec->code: every Memory state replayed into "
        "LbfgsInvHessProduct + extract_hess_inv_diag (exact rational expected); code->spec: provenance ids of every pair "
        "of every result/callback state of real runs incl. restart chains (bit-exact differences of visited iterates and "
        "of the user's gradients), validated by TLC; logged relation diag == todense().diagonal() for random "
        "positive-curvature pair sets (1..12 pairs, n <= 30); distinct = event-kind sequences / histories")


def diag_relation(ctx):
    from scipy.optimize import LbfgsInvHessProduct

    from lbfgsb.utils import extract_hess_inv_diag

    rng = np.random.default_rng([ctx.seed, 18])
    n_eval = 0
    for _ in range(ctx.pick(400, 4000)):
        n = int(rng.integers(1, 31))
        m = int(rng.integers(1, 13))
        A = problems._spd(rng, n, 10 ** rng.uniform(0, 4))
        sk = rng.normal(0, 1, (m, n))
        yk = sk @ A + 1e-3 * rng.normal(0, 1, (m, n)) * (rng.random() < 0.5)
        keep = np.einsum("ij,ij->i", sk, yk) > 0
        sk, yk = sk[keep], yk[keep]
        if sk.shape[0] == 0:
            continue
        h = LbfgsInvHessProduct(sk, yk)
        d = extract_hess_inv_diag(h)
        dd = np.diag(h.todense())
        n_eval += 1
        if d.shape != (n,) or not np.allclose(d, dd, rtol=1e-10, atol=1e-13 * float(np.max(np.abs(dd)))):
            ctx.violation("C18_DiagIsDenseDiagonal", {"kind": "diag-relation", "n": n, "pairs": int(sk.shape[0]),
                                                      "sk": sk.tolist(), "yk": yk.tolist(),
                                                      "summary": f"extract_hess_inv_diag != diag(todense) n={n} m={sk.shape[0]}"})
    ctx.add_counts(evaluations=n_eval, distinct_nontrivial=n_eval)


def _sw18(s):
    from harness.checks import c13
    return c13.switching(s, prefix="C18")


def _rr18(s):
    from harness.checks import c13
    return c13.restart_rewrite(s, prefix="C18")


def rewritten_histories(ctx):
    """Operators of runs whose stored gradients are rewritten by an update function (the only path on which a stored
    pair can lose its curvature): in the loop, in the iteration in which the run stops, and at the initial call of a
    restart. Same scenarios as C13, judged on the C18 clauses (count, curvature, differences of what the user returned)."""
    import multiprocessing as mp

    from harness.checks import c13
    from harness.common import NCPU
    from harness.tracecheck import validate

    sw, _idt, rr = c13.specs(ctx)
    with mp.get_context("fork").Pool(NCPU) as pool:
        res = pool.map(_sw18, sw, chunksize=2) + pool.map(_rr18, rr, chunksize=2)
    flat = [(r["spec"], kind, k, tr) for r in res for (kind, k, tr) in r["traces"] if kind != "restart"]
    viols = validate(ctx, [t[3] for t in flat], module="Equiv", name="equiv-c18")
    for (spec, kind, k, tr), v in zip(flat, viols):
        for cl in sorted(v):
            ctx.violation(cl, {"kind": "rewritten-history", "relation": kind, "k": k, "spec": spec, "trace": tr[:12],
                               "summary": f"{kind} k={k} rewrite={spec.get('rewrite')} {spec['family']} n={spec['n']} kwargs={spec['kwargs']}"})
    ctx.add_counts(evaluations=len(flat), distinct_nontrivial=len({(json.dumps(s, sort_keys=True), kd, k) for s, kd, k, _ in flat}))
    ctx.cov["rewritten_histories"] = {kd: sum(1 for t in flat if t[1] == kd) for kd in ("pairs", "result", "restart-rewrite", "raises")}


def specs(ctx):
    rng = np.random.default_rng([ctx.seed, 181])
    out = []
    for i in range(ctx.pick(300, 3000)):
        s = corpus.rand_spec(rng, problems.CONVEX + problems.NONCONVEX, nmax=8, allow_chain=(i % 2 == 0))
        s["kwargs"]["maxfun"] = max(s["kwargs"].get("maxfun", 100), 10)
        s["kwargs"]["maxiter"] = max(s["kwargs"].get("maxiter", 10), 3)
        out.append(s)
    out += corpus.scripted_specs(rng, exhaustive_len=1, n_random=ctx.pick(150, 1500))   # incl. line-search failures + resets
    # a run stopped by its target, restarted with a smaller memory (the restart returns at once: the target is met)
    for i in range(ctx.pick(40, 400)):
        out.append({"family": ["qp", "qp4", "qpsoft", "rosenbrock"][i % 4], "n": int(rng.integers(2, 8)), "pseed": int(rng.integers(1 << 30)),
                    "jac": "callable", "cb": "never", "ftarget": ["float", float(rng.choice([-0.5, -0.8, -0.95]))],
                    "kwargs": {"maxcor": int(rng.choice([3, 5, 10])), "ftol": 0.0, "maxiter": 40, "maxfun": 400, "maxls": 20},
                    "gtol": ["float", 1e-10], "chain": [{"maxcor": int(rng.choice([1, 2]))}, {"maxcor": 1}][: 1 + i % 2]})
    # starved line searches on non-convex objectives in boxes: rejected updates followed by failed searches and memory
    # resets, then accepted steps (every state reported by the callback is judged)
    for i in range(ctx.pick(400, 4000)):
        out.append({"family": ["cosmix", "qpcos", "cosmix", "osc", "cosmix", "rastrigin"][i % 6], "n": int(rng.integers(2, 6)),
                    "pseed": int(rng.integers(1 << 30)), "jac": "callable", "cb": "never",
                    "box_kinds": ["box", "box", "lo", "up", "free"], "start": ["interior", "face"][i % 2],
                    "box_spread": 4.0,
                    "kwargs": {"maxcor": int(rng.choice([2, 3, 5])), "ftol": 0.0, "maxiter": int(rng.integers(15, 40)),
                               "maxfun": 300, "maxls": int(rng.choice([1, 2, 3]))},
                    "gtol": ["float", 1e-8]})
    return out


def run(ctx):
    drivercheck.design(ctx, restart=True)
    drivercheck.design(ctx, cfg="MCDriver_rewrite.cfg")
    for c in c10.mem_cfgs(ctx)[:1]:
        recs = c10.memory_states(ctx, c)
        c10.replay_states(ctx, recs, ("C18_",))
        ctx.add_counts(evaluations=len(recs), distinct_nontrivial=len(recs))
    diag_relation(ctx)
    rewritten_histories(ctx)
    drivercheck.run_traces(ctx, specs(ctx), PREFIX)
    return ctx.finish("model_checking", RULE)


def replay(ctx, path):
    rec = json.load(open(path))
    if rec.get("kind") == "driver-trace":
        return drivercheck.replay(ctx, path, PREFIX)
    from harness.common import Machinery
    raise Machinery("deterministic: re-run ./check C18")
