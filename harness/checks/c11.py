"""C11: line-search steps are feasible, within budget and strictly downhill."""
import multiprocessing as mp

import numpy as np

from harness import corpus, drivercheck, problems
from harness.checks import feasible_design
from harness.common import NCPU, tlc_design
from harness.observe import max_step
from harness.problems import CONVEX, NONCONVEX
from harness.tracecheck import validate

PREFIX = ("C11_",)
RULE = ("design: TLC exhausts LineSearch.tla (all outcome sequences x budgets 1..4) and Feasible.tla; code->spec: "
        "(a) stand-alone calls of lbfgsb.linesearch.line_search on random non-convex objectives, directions from "
        "projected gradient steps, caps 1..20, iteration index 0 or later, varied tolerances - traces validated "
        "against LineSearchTrace; (b) the C11_* clauses of DriverTrace on full runs; distinct = distinct outcome "
        "sequences (ranks of trials, return index)")


def one_call(spec):
    import warnings

    warnings.simplefilter("ignore")
    np.seterr(all="ignore")
    from lbfgsb.linesearch import line_search
    from lbfgsb.scalar_function import prepare_scalar_function

    rng = np.random.default_rng([spec["pseed"], 11])
    p = problems.gen(rng, spec["family"], spec["n"], box_kinds=spec.get("box_kinds"))
    lb, ub = p.lb, p.ub
    x0 = problems.make_start(rng, lb, ub, ["interior", "face", "vertex"][spec["pseed"] % 3])
    g = np.asarray(p.grad(x0), float)
    alpha = float(10 ** rng.uniform(-3, 1))
    d = np.clip(x0 - alpha * g, lb, ub) - x0
    if not np.dot(g, d) < 0:
        return None
    log = []

    def fun(x):
        v = float(p.fun(x))
        log.append((np.array(x, copy=True), v))
        return v

    sf = prepare_scalar_function(fun, x0, jac=p.grad, bounds=(lb, ub))
    f0 = sf.fun(x0)
    g0 = sf.grad(x0)
    log.clear()
    cap = spec["cap"]
    it = spec["it"]
    msl = spec["msl"]
    is_boxed = not (np.isinf(lb).any() or np.isinf(ub).any())
    stp = line_search(x0.copy(), f0, g0, d.copy(), lb, ub, it, msl, is_boxed, sf,
                      spec["ftol"], spec["gtol"], spec["xtol"], cap, -1, None)
    vals = sorted(set([f0] + [v for _, v in log if v == v]))
    rank = {v: k for k, v in enumerate(vals)}
    ev = [{"e": "Begin", "budget": cap, "start": rank[f0]}]
    for xp, v in log:
        ev.append({"e": "Trial", "fr": rank.get(v, len(vals)),
                   "inbox": bool(np.all(lb <= xp) and np.all(xp <= ub) and np.all(xp[lb == ub] == lb[lb == ub]))})
    if stp is None:
        ev.append({"e": "End", "ret": 0, "pos": True, "leMax": True, "isTrial": True})
    else:
        tgt = x0 + stp * d
        best = None
        for k, (xp, v) in enumerate(log):
            dist = float(np.max(np.abs(xp - tgt) / (1 + np.abs(tgt))))
            if best is None or dist < best[0]:
                best = (dist, k + 1)
        is_trial = best is not None and best[0] <= 1e-12
        smax = max_step(x0, d, lb, ub, msl, it)
        ev.append({"e": "End", "ret": best[1] if is_trial else len(log) + 1, "pos": bool(stp > 0),
                   "leMax": bool(stp <= smax), "isTrial": bool(is_trial)})
    return {"trace": ev, "spec": spec, "stp": None if stp is None else float(stp)}


def ls_specs(ctx):
    rng = np.random.default_rng([ctx.seed, 11])
    out = []
    fams = ["osc", "qpcos", "rastrigin", "griewank", "styblinski_tang", "rosenbrock", "expwall", "badscale", "qp4"]
    for _ in range(ctx.pick(3000, 40000)):
        fam = fams[int(rng.integers(len(fams)))]
        out.append({"family": fam, "n": int(rng.integers(2 if fam == "rosenbrock" else 1, 7)),
                    "pseed": int(rng.integers(1 << 30)), "cap": int(rng.integers(1, 21)),
                    "it": int(rng.choice([0, 0, 1, 5])), "msl": float(rng.choice([1e8, 1e8, 2.0, 0.5])),
                    "ftol": float(rng.choice([1e-3, 1e-4, 0.1])), "gtol": float(rng.choice([0.9, 0.5, 0.1])),
                    "xtol": float(rng.choice([0.1, 1e-5])),
                    "box_kinds": ["lo", "up", "box", "box", "free"]})
    return out


def run(ctx):
    feasible_design.run(ctx)
    tlc_design(ctx, "design:LineSearch", "LineSearch", "LineSearch.cfg", workers=4)
    # (a) stand-alone calls
    specs = ls_specs(ctx)
    with mp.get_context("fork").Pool(NCPU) as pool:
        res = [r for r in pool.map(one_call, specs, chunksize=64) if r is not None]
    viols = validate(ctx, [r["trace"] for r in res], module="LineSearchTrace", name="linesearch")
    shapes = set()
    for r, v in zip(res, viols):
        shapes.add(tuple((e["e"], e.get("fr"), e.get("ret")) for e in r["trace"]))
        for c in sorted(v):
            if c.startswith("Conf_"):
                from harness.common import Machinery
                raise Machinery(f"incomplete line-search trace {r['spec']}")
            ctx.violation(c, {"kind": "standalone-linesearch", "spec": r["spec"], "trace": r["trace"], "stp": r["stp"],
                              "summary": f"line_search {r['spec']['family']} n={r['spec']['n']} cap={r['spec']['cap']} it={r['spec']['it']} -> stp={r['stp']}"})
    ctx.add_counts(evaluations=len(res), distinct_nontrivial=len(shapes))
    ctx.add_samples([{"spec": r["spec"], "trace": r["trace"]} for r in res[:2]])
    # (b) full runs
    rng = np.random.default_rng([ctx.seed, 111])
    dspecs = []
    for _ in range(ctx.pick(250, 2500)):
        s = corpus.rand_spec(rng, NONCONVEX + CONVEX, nmax=8, allow_target=False, allow_cb=False)
        s["kwargs"]["maxls"] = int(rng.integers(1, 21))
        dspecs.append(s)
    dspecs += corpus.scripted_specs(rng, exhaustive_len=2, n_random=ctx.pick(200, 2000))
    drivercheck.run_traces(ctx, dspecs, PREFIX)
    return ctx.finish("model_checking", RULE)


def replay(ctx, path):
    import json
    rec = json.load(open(path))
    if rec.get("kind") == "standalone-linesearch":
        r = one_call(rec["spec"])
        v = validate(ctx, [r["trace"]], module="LineSearchTrace", name="replay")
        print(json.dumps({"clauses": sorted(v[0]), "trace": r["trace"]}, indent=1))
        for c in v[0]:
            ctx.violation(c, {"kind": "standalone-linesearch", "spec": rec["spec"]})
        ctx.add_counts(evaluations=2, distinct_nontrivial=2)
        return ctx.finish("model_checking", "replay")
    return drivercheck.replay(ctx, path, PREFIX)
