"""C03: the objective never increases from one accepted iterate to the next."""
import numpy as np

from harness import corpus, drivercheck
from harness.problems import CONVEX, NONCONVEX

PREFIX = ("C03_",)
RULE = ("design: TLC exhausts MCDriver (all configurations x line-search outcome sequences x budgets); "
        "code->spec: random runs (convex, non-convex, badly scaled; maxls 1..20, maxfun from 1, all maxcor) "
        "validated against DriverTrace; spec->code: scripted objectives realising every sequence of trial outcomes (value level x slope) up to length 2/3 x line-search caps x evaluation budgets; a trace is non-trivial/distinct by its event-kind sequence")


def specs(ctx):
    rng = np.random.default_rng([ctx.seed, 3])
    out = []
    for _ in range(ctx.pick(400, 4000)):
        s = corpus.rand_spec(rng, CONVEX + NONCONVEX, nmax=8, allow_target=False)
        s["kwargs"]["maxls"] = int(rng.integers(1, 21))
        s["kwargs"]["maxfun"] = int(rng.choice([1, 2, 3, 4, 5, 7, 10, 15, 30, 100]))
        out.append(s)
    # scripted objectives: every sequence of trial outcomes up to a length x line-search caps (spec -> code)
    out += corpus.scripted_specs(rng, exhaustive_len=ctx.pick(2, 3), n_random=ctx.pick(300, 3000))
    return out


def run(ctx):
    drivercheck.design(ctx, wide=True)
    drivercheck.run_traces(ctx, specs(ctx), PREFIX)
    return ctx.finish("model_checking", RULE)


def replay(ctx, path):
    return drivercheck.replay(ctx, path, PREFIX)
