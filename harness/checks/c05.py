"""C05: result coherence - fun and jac belong to x; counters equal the calls made."""
import numpy as np

from harness import corpus, drivercheck
from harness.problems import CONVEX, NONCONVEX, CS_OK


def problems_cs():
    return CS_OK


PREFIX = ("C05_", "C15_NoReeval")
RULE = ("design: TLC exhausts MCDriver with the memo cell of the function wrapper (hit at the accepted point when "
        "it is the last trial, re-evaluation otherwise) and the C05_* invariants; code->spec: random runs over all "
        "families, gradient modes (callable, None, 2-point, 3-point, cs), scaler on/off, restart chains; fun/jac "
        "compared bit-for-bit with a harness-side re-evaluation, nfev/njev with the call log; distinct = event-kind sequence")


def specs(ctx):
    rng = np.random.default_rng([ctx.seed, 5])
    out = []
    fams = CONVEX + NONCONVEX
    for i in range(ctx.pick(420, 4000)):
        jac = ["callable", "callable", "callable", "none", "2-point", "3-point", "cs"][i % 7]
        s = corpus.rand_spec(rng, fams if jac != "cs" else problems_cs(),
                             nmax=6, allow_chain=(jac == "callable"), jacs=(jac,))
        if jac != "callable":
            s["kwargs"]["maxiter"] = min(s["kwargs"]["maxiter"], 8)
        if i % 5 == 2:
            s["mutate_args"] = True      # the user's callables overwrite the arrays they are handed
        if rng.random() < 0.3 and "chain" not in s:
            s["scaler"] = [0.01, 3.0, 250.0][int(rng.integers(3))]
        out.append(s)
    # scripted objectives: e.g. a converged line search whose accepted (lowest) trial is not the last one evaluated
    out += corpus.scripted_specs(rng, exhaustive_len=2, n_random=ctx.pick(800, 4000))
    return out


def run(ctx):
    drivercheck.design(ctx)
    drivercheck.run_traces(ctx, specs(ctx), PREFIX)
    return ctx.finish("model_checking", RULE)


def replay(ctx, path):
    return drivercheck.replay(ctx, path, PREFIX)
