"""C02: every evaluated, reported and returned point lies inside the box, exactly."""
import numpy as np

from harness import corpus, drivercheck
from harness.problems import CONVEX, NONCONVEX, CS_OK


def problems_cs():
    return CS_OK


PREFIX = ("C02_",)
RULE = ("design: Feasible.tla (rounding as an adversary, per point-producing site); code->spec: every Eval / stencil / "
        "Callback / Return event of random bounded runs (all families, all gradient modes, small and large budgets) "
        "carries exact-comparison facts inbox / fixed-unmoved that DriverTrace guards; distinct = event-kind sequence")


def specs(ctx):
    rng = np.random.default_rng([ctx.seed, 2])
    out = []
    fams = CONVEX + NONCONVEX
    for i in range(ctx.pick(700, 8000)):
        jac = ["callable", "callable", "callable", "callable", "none", "2-point", "3-point", "cs"][i % 8]
        s = corpus.rand_spec(rng, fams if jac != "cs" else problems_cs(),
                             nmax=8, jacs=(jac,), small_budgets=(i % 3 == 0), allow_target=False)
        s.setdefault("box_kinds", ["lo", "up", "box", "box", "box", "fix"])
        if jac != "callable":
            s["box_kinds"] = ["lo", "up", "box", "box", "box", "fix"]
            s["kwargs"]["maxiter"] = min(s["kwargs"].get("maxiter", 30), 30)
        else:
            s["kwargs"]["maxiter"] = min(s["kwargs"].get("maxiter", 60), 60)
        s["cb"] = "never"
        out.append(s)
    # tight boxes around the unconstrained minimiser: many subspace steps truncated by a bound and full steps accepted
    for i in range(ctx.pick(500, 5000)):
        out.append({"family": ["qp", "qp4", "rosenbrock", "qpsoft"][i % 4], "n": int(rng.integers(2, 9)),
                    "pseed": int(rng.integers(1 << 30)), "box_kinds": ["box", "box", "lo", "up"], "box_spread": 0.3,
                    "start": ["interior", "face"][i % 2], "cb": "never", "jac": "callable",
                    "kwargs": {"maxcor": int(rng.choice([1, 3, 10])), "ftol": 0.0, "maxiter": 25, "maxfun": 400, "maxls": 20}})
    # restarts from a checkpoint in every gradient mode, in tight boxes (the restarted leg differences at iterates that
    # touch or graze a bound)
    for i in range(ctx.pick(300, 3000)):
        jac = ["none", "2-point", "3-point", "cs", "callable"][i % 5]
        out.append({"family": (["qp", "qp4", "qpcos"] if jac == "cs" else ["qp", "qp4", "rosenbrock", "qpsoft"])[i % 3 if jac == "cs" else i % 4],
                    "n": int(rng.integers(2, 7)), "pseed": int(rng.integers(1 << 30)),
                    "box_kinds": ["box", "box", "lo", "up"], "box_spread": [0.3, 1.0][i % 2],
                    "start": ["interior", "face", "vertex"][i % 3], "cb": "never", "jac": jac,
                    "kwargs": {"maxcor": int(rng.choice([1, 3, 10])), "ftol": 0.0, "maxiter": int(rng.integers(1, 5)),
                               "maxfun": 2000, "maxls": 20},
                    "chain": [{"maxiter": int(rng.integers(5, 12))}, {"maxiter": 20}][: 1 + i % 2]})
    return out


def run(ctx):
    from harness.checks import feasible_design
    feasible_design.run(ctx)
    drivercheck.run_traces(ctx, specs(ctx), PREFIX)
    return ctx.finish("model_checking", RULE)


def replay(ctx, path):
    return drivercheck.replay(ctx, path, PREFIX)
