"""C06: restarting from a returned result continues the run as if it had not stopped."""
import json
import multiprocessing as mp

import numpy as np

from harness import corpus, drivercheck, equiv, problems
from harness.checks import c10
from harness.common import NCPU
from harness.tracecheck import validate

PREFIX = ("C06_",)
RULE = ("design: MCDriver (restart from any result, chains, maxcor reduced; C06_RestoreEqualsStopped) and Memory.tla "
        "(Restore o Externalise = LastN exactly on the integer lattice, C06_RestoreIsLastN); spec->code: every Memory "
        "state replayed into initialize_X_and_G (exact); code->spec: for every split iteration k of every explored run, "
        "chains of up to 4 restarts, maxcor kept or reduced: (a) a restart performing no iteration returns the same pairs "
        "(the most recent ones when maxcor is reduced), (b) the evaluations after the restart coincide with those of the "
        "uninterrupted run up to rounding - merged traces validated by TLC against Equiv.tla; distinct = (run, split/chain)")


def _roundoff_tail(p, tail, rfull):
    """Position of the uninterrupted run's tail from which the objective is within round-off of its final value:
    from there on the two runs may stop at different evaluations (Roundoff excuse of Equiv.tla)."""
    ffin = float(rfull.fun)
    for i, (kind, pt) in enumerate(tail):
        if kind == "f" and abs(float(p.fun(pt)) - ffin) <= 1e-11 * (1.0 + abs(ffin)):
            return {i: ("Roundoff",)}
    return {}


def splits(spec):
    import warnings

    warnings.simplefilter("ignore")
    np.seterr(all="ignore")
    import lbfgsb

    p = corpus.make_problem(spec)
    kw = dict(spec["kwargs"])
    K = kw["maxiter"]
    full = equiv.EvalLog(p.fun, p.grad)
    rfull = lbfgsb.minimize_lbfgsb(x0=p.x0, fun=full.fun, jac=full.grad, bounds=p.bounds, **kw)
    out = {"spec": spec, "traces": []}
    if rfull.nit < 2:
        return out

    def run_to(k, ck=None, x0=None, log=None, maxcor=None):
        kw2 = dict(kw)
        kw2["maxiter"] = k
        if maxcor is not None:
            kw2["maxcor"] = maxcor
        lg = log or equiv.EvalLog(p.fun, p.grad)
        r = lbfgsb.minimize_lbfgsb(x0=p.x0 if ck is None else np.array(ck.x, copy=True), fun=lg.fun, jac=lg.grad,
                                   bounds=p.bounds, checkpoint=ck, **kw2)
        return r, lg

    def close_pairs(a, b):
        return bool(a.shape == b.shape and np.allclose(a, b, rtol=1e-9, atol=1e-12 * (1.0 + float(np.max(np.abs(a))) if a.size else 0.0)))

    prev_x = {}
    for k in range(1, min(rfull.nit, spec.get("kmax", 6))):
        rk, lk = run_to(k)
        if rk.nit != k or not rk.message.startswith("STOP: TOTAL NO. of ITERATIONS"):
            continue
        mark = len(lk.pts)
        # anchored: the newest pair ends at the returned point (false after a rejected update)
        sk = rk.hess_inv.sk
        anchored = bool(sk.shape[0] > 0 and np.allclose(sk[-1], rk.x - prev_x.get(k - 1, np.clip(p.x0, p.lb, p.ub)), rtol=0, atol=0)) \
            if False else None
        # (a) zero-iteration restart returns the same pairs
        r0, _ = run_to(k, ck=rk)
        f = {"pairs_sk": close_pairs(r0.hess_inv.sk, rk.hess_inv.sk), "pairs_yk": close_pairs(r0.hess_inv.yk, rk.hess_inv.yk),
             "x": bool(np.array_equal(r0.x, rk.x)), "nit": r0.nit == rk.nit, "nfev": r0.nfev == rk.nfev, "njev": r0.njev == rk.njev}
        out["traces"].append(("zero-iteration", k, equiv.merge("C06_ZeroIter", False, [], [], f), None))
        # maxcor reduced: the most recent pairs are kept
        m = rk.hess_inv.sk.shape[0]
        if m >= 2:
            mc = max(1, m - 1)
            r0b, _ = run_to(k, ck=rk, maxcor=mc)
            fb = {"kept_most_recent_sk": close_pairs(r0b.hess_inv.sk, rk.hess_inv.sk[-mc:]),
                  "kept_most_recent_yk": close_pairs(r0b.hess_inv.yk, rk.hess_inv.yk[-mc:])}
            out["traces"].append(("maxcor-reduced", k, equiv.merge("C06_MaxcorReduced", False, [], [], fb), None))
        # (b) continuation == uninterrupted run
        rr, lr = run_to(K, ck=rk)
        tail = full.pts[mark:]
        # state is 'anchored' iff the uninterrupted run accepted the update of iteration k
        x_k = rk.x
        anchored = bool(sk.shape[0] > 0 and any(np.array_equal(x_k - pt[1], sk[-1]) for pt in full.pts[:mark]))
        out["traces"].append(("continuation", k, equiv.merge("C06_Continuation", False, tail, equiv.strip_cached(lr.pts, rk.x), None,
                                                             limit=spec.get("cmp", 6), rtol=1e-6,
                                                             excuses=_roundoff_tail(p, tail, rfull)), anchored))
    # chain of restarts: stop at k1 < k2 < ... and continue; compare the last leg with the uninterrupted run
    ks = sorted(set(int(v) for v in np.linspace(1, max(1, rfull.nit - 1), num=min(4, rfull.nit - 1))))
    ck, mark, ok = None, 0, True
    anchored = True
    for k in ks:
        r, lg = run_to(k, ck=ck)
        if r.nit != k or not r.message.startswith("STOP: TOTAL NO. of ITERATIONS"):
            ok = False
            break
        mark += len(lg.pts)
        sk = r.hess_inv.sk
        anchored = anchored and bool(sk.shape[0] > 0 and any(
            np.allclose(r.x - pt[1], sk[-1], rtol=1e-9, atol=1e-13) for pt in full.pts[:mark]))
        ck = r
    if ok and ck is not None and len(ks) >= 2:
        rr, lr = run_to(K, ck=ck)
        tail = full.pts[mark:]
        out["traces"].append(("chain", len(ks), equiv.merge("C06_Chain", False, tail, equiv.strip_cached(lr.pts, ck.x), None,
                                                            limit=spec.get("cmp", 6), rtol=1e-5,
                                                            excuses=_roundoff_tail(p, tail, rfull)), anchored))
    return out


# split points that exposed a defect in the past (kept in every tier)
REGRESSION_SPECS = [
    {"family": "qpcos", "n": 3, "pseed": 553559192, "cond": 1.8305305001235868, "kmax": 7, "cmp": 6,
     "kwargs": {"maxcor": 10, "ftol": 0.0, "gtol": 1e-10, "maxiter": 13, "maxfun": 500, "maxls": 20}},
    {"family": "qpcos", "n": 8, "pseed": 39521919, "cond": 26.28724205465373, "kmax": 7, "cmp": 6,
     "kwargs": {"maxcor": 10, "ftol": 0.0, "gtol": 1e-10, "maxiter": 8, "maxfun": 500, "maxls": 20}},
    # a zero-length trial step right after the split: the uninterrupted run is served from the wrapper's cache, the
    # restarted run evaluates at the checkpoint's point (false alarm of the first thorough run; see equiv.strip_cached)
    # subspace point one ulp outside the box -> outward direction component on a variable at its bound -> maximum step 0 ->
    # failed line search in the restarted run only (thorough tier, repaired by 53e4fa7)
    {"family": "rosenbrock", "n": 4, "pseed": 196702556, "cond": 1.1064069174927953, "kmax": 20, "cmp": 6,
     "kwargs": {"maxcor": 3, "ftol": 0.0, "gtol": 1e-10, "maxiter": 10, "maxfun": 500, "maxls": 3}},
    {"family": "rosenbrock", "n": 5, "pseed": 325236788, "cond": 52.39293522280546, "kmax": 7, "cmp": 6,
     "kwargs": {"maxcor": 5, "ftol": 0.0, "gtol": 1e-10, "maxiter": 11, "maxfun": 500, "maxls": 20}},
]


def specs(ctx):
    rng = np.random.default_rng([ctx.seed, 6])
    out = list(REGRESSION_SPECS)
    # continuation is compared "up to rounding": well-conditioned smooth families only (rounding of the
    # reconstructed history is amplified by the condition number of the problem)
    fams = problems.CONVEX + ["rosenbrock", "qpcos", "styblinski_tang"]
    for i in range(ctx.pick(100, 1000)):
        fam = fams[int(rng.integers(len(fams)))]
        out.append({"family": fam, "n": int(rng.integers(2, 9)), "pseed": int(rng.integers(1 << 30)),
                    "kwargs": {"maxcor": int(rng.choice([1, 2, 3, 5, 10])), "ftol": 0.0, "gtol": 1e-10,
                               "maxiter": int(rng.integers(4, 14)), "maxfun": 500, "maxls": 20},
                    "cond": float(10 ** rng.uniform(0, 2)), "kmax": 7, "cmp": 6})
    # the same relations in other units of the objective (f multiplied by 2^+-33, 2^40): the curvature s.y / y.y of every
    # pair moves by that factor while the relative curvature test of the memory is unaffected
    for i in range(ctx.pick(45, 450)):
        out.append({"family": ["qp", "qp4", "rosenbrock"][i % 3], "n": int(rng.integers(2, 7)), "pseed": int(rng.integers(1 << 30)),
                    "fscale": [2.0 ** 33, 2.0 ** -33, 2.0 ** 40][(i // 3) % 3],
                    "kwargs": {"maxcor": int(rng.choice([1, 3, 10])), "ftol": 0.0, "gtol": 0.0,
                               "maxiter": int(rng.integers(4, 12)), "maxfun": 500, "maxls": 20},
                    "cond": float(10 ** rng.uniform(0, 1.5)), "kmax": 7, "cmp": 6})
    # starved line searches (maxls 1..3) on non-convex objectives: searches fail in mid-run and the memory is reset;
    # every split point, including the ones that land on a reset
    for i in range(ctx.pick(300, 3000)):
        fam = ["rosenbrock", "qpcos", "osc", "styblinski_tang", "qp4"][i % 5]
        out.append({"family": fam, "n": int(rng.integers(2, 7)), "pseed": int(rng.integers(1 << 30)),
                    "kwargs": {"maxcor": int(rng.choice([1, 3, 10])), "ftol": 0.0, "gtol": 1e-10,
                               "maxiter": int(rng.integers(6, 22)), "maxfun": 500, "maxls": int(rng.choice([1, 2, 3]))},
                    "cond": float(10 ** rng.uniform(0, 2)), "kmax": 20, "cmp": 6})
    return out


def run(ctx):
    drivercheck.design(ctx, restart=True)
    for c in c10.mem_cfgs(ctx)[:1]:
        recs = c10.memory_states(ctx, c)
        c10.replay_states(ctx, recs, ("C06_",))
        ctx.add_counts(evaluations=len(recs), distinct_nontrivial=len(recs))
    with mp.get_context("fork").Pool(NCPU) as pool:
        res = pool.map(splits, specs(ctx), chunksize=2)
    flat = [(r["spec"], kind, k, tr, anch) for r in res for (kind, k, tr, anch) in r["traces"]]
    viols = validate(ctx, [t[3] for t in flat], module="Equiv", name="equiv-c06")
    for (spec, kind, k, tr, anch), v in zip(flat, viols):
        for c in sorted(v):
            ctx.violation(c, {"kind": "split-point", "relation": kind, "k": k, "spec": spec, "trace": tr[:14],
                              "newest_pair_anchored_at_x": anch,
                              "summary": f"{kind} k={k} {spec['family']} n={spec['n']} kwargs={spec['kwargs']} anchored={anch}"})
    ctx.add_counts(evaluations=len(flat), distinct_nontrivial=len({(json.dumps(s, sort_keys=True), kind, k) for s, kind, k, _, _ in flat}))
    ctx.add_samples([{"spec": s, "relation": kind, "k": k, "trace": tr[:8]} for s, kind, k, tr, _ in flat[:3]])
    ctx.cov["relations"] = {kd: sum(1 for t in flat if t[1] == kd) for kd in ("zero-iteration", "maxcor-reduced", "continuation", "chain")}
    return ctx.finish("model_checking", RULE)


def replay(ctx, path):
    rec = json.load(open(path))
    r = splits(rec["spec"])
    sel = [t for t in r["traces"] if t[0] == rec["relation"] and t[1] == rec["k"]]
    v = validate(ctx, [t[2] for t in sel], module="Equiv", name="replay")
    print(json.dumps({"clauses": [sorted(x) for x in v]}, indent=1))
    ctx.add_counts(evaluations=2, distinct_nontrivial=2)
    return ctx.finish("model_checking", "replay")
