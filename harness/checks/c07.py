"""C07: the callback state is a faithful snapshot usable as a crash checkpoint."""
import copy
import json
import multiprocessing as mp

import numpy as np

from harness import corpus, drivercheck, equiv, problems
from harness.common import NCPU
from harness.tracecheck import validate

PREFIX = ("C07_",)
RULE = ("design: MCDriver (snapshot built by the same constructor as the result at the same state incl. nit = k, "
        "C07_CallbackNeutral action property, restart from any result); code->spec: for every iteration k of every "
        "explored run (each k a crash point): (a) DriverTrace clauses on the callback event (nit, x, pairs, immutability "
        "after the callback returns); (b) the retained state vs the result of the same run with maxiter = k, field by "
        "field bit-exact; (c) restart from the retained state (as it is at the end of the run) vs the uninterrupted run, "
        "evaluation by evaluation up to rounding; (d) run with a callback returning False vs run without callback, "
        "bit-exact - (b)-(d) validated by TLC against Equiv.tla; distinct = (run, k) crash points")


def crash_points(spec):
    import warnings

    warnings.simplefilter("ignore")
    np.seterr(all="ignore")
    import lbfgsb

    p = corpus.make_problem(spec)
    kw = dict(spec["kwargs"])
    states = []

    def cb(xk, st):
        states.append((st, copy.deepcopy(st)))
        return False

    full_log = equiv.EvalLog(p.fun, p.grad)
    marks = []

    def cb2(xk, st):
        cb(xk, st)
        marks.append(len(full_log.pts))
        return False

    rfull = lbfgsb.minimize_lbfgsb(x0=p.x0, fun=full_log.fun, jac=full_log.grad, bounds=p.bounds, callback=cb2, **kw)
    out = {"spec": spec, "traces": [], "nk": len(states)}
    # (d) callback neutrality
    nolog = equiv.EvalLog(p.fun, p.grad)
    rno = lbfgsb.minimize_lbfgsb(x0=p.x0, fun=nolog.fun, jac=nolog.grad, bounds=p.bounds, **kw)
    out["traces"].append(("neutral", 0, equiv.merge("C07_Neutral", True, full_log.pts, nolog.pts,
                                                    equiv.result_fields(rfull, rno, exact=True)), True))
    xprev = np.clip(np.asarray(p.x0, float), p.lb, p.ub)
    for j, (st, st0) in enumerate(states, start=1):
        if j > spec.get("kmax", 6):
            break
        k = int(st0.nit)         # iteration index (iterations whose line search failed have no callback)
        # is the newest pair anchored at the current point?  (not when the last update was rejected)
        anchored = bool(st0.hess_inv.sk.shape[0] > 0 and np.array_equal(st0.hess_inv.sk[-1], st0.x - xprev))
        xprev = np.array(st0.x, copy=True)
        # (b) state after iteration k == result of a run with maxiter = k
        kw2 = dict(kw)
        kw2["maxiter"] = k
        rk = lbfgsb.minimize_lbfgsb(x0=p.x0, fun=p.fun, jac=p.grad, bounds=p.bounds, **kw2)
        f = equiv.result_fields(st0, rk, exact=True)
        for drop in ("message", "success", "status"):
            f.pop(drop)
        if rk.nit != k or not rk.message.startswith("STOP: TOTAL NO. of ITERATIONS"):
            continue             # the shorter run stopped earlier for another reason: not comparable
        out["traces"].append(("snapshot", k, equiv.merge("C07_Snapshot", True, [], [], f), True))
        # (c) crash later, restart from the retained state as it is now
        if rfull.nit > k and st.hess_inv.sk.shape[0] > 0:
            rlog = equiv.EvalLog(p.fun, p.grad)
            try:
                rr = lbfgsb.minimize_lbfgsb(x0=np.array(st.x, copy=True), fun=rlog.fun, jac=rlog.grad, bounds=p.bounds,
                                            checkpoint=st, **kw)
                tail = full_log.pts[marks[j - 1]:]
                tr = equiv.merge("C07_Restart", False, tail, equiv.strip_cached(rlog.pts, st.x), None, limit=spec.get("cmp", 4), rtol=1e-6)
            except Exception as ex:  # noqa: BLE001
                tr = [{"e": "Mode", "prop": "C07_Restart", "exact": False},
                      {"e": "Result", "fields": {"restart_raises_" + type(ex).__name__: False}}]
            out["traces"].append(("restart", k, tr, anchored))
    return out


def specs(ctx):
    rng = np.random.default_rng([ctx.seed, 7])
    out = []
    for i in range(ctx.pick(120, 1200)):
        fam = (problems.CONVEX + ["rosenbrock", "qpcos", "styblinski_tang", "beale"])[int(rng.integers(7))]
        s = {"family": fam, "n": int(rng.integers(2, 8)), "pseed": int(rng.integers(1 << 30)),
             "kwargs": {"maxcor": int(rng.choice([1, 2, 3, 5, 10])), "ftol": 0.0, "gtol": 1e-9,
                        "maxiter": int(rng.integers(3, 12)), "maxfun": 400, "maxls": 20},
             "kmax": 6, "cmp": 4}
        out.append(s)
    return out


def run(ctx):
    drivercheck.design(ctx, restart=True)
    sp = specs(ctx)
    with mp.get_context("fork").Pool(NCPU) as pool:
        res = pool.map(crash_points, sp, chunksize=2)
    flat = [(r["spec"], kind, k, tr, anch) for r in res for (kind, k, tr, anch) in r["traces"]]
    viols = validate(ctx, [t[3] for t in flat], module="Equiv", name="equiv-c07")
    for (spec, kind, k, tr, anch), v in zip(flat, viols):
        for c in sorted(v):
            ctx.violation(c, {"kind": "crash-point", "relation": kind, "k": k, "spec": spec, "trace": tr[:12],
                              "newest_pair_anchored_at_x": anch,
                              "summary": f"{kind} k={k} {spec['family']} n={spec['n']} kwargs={spec['kwargs']}"})
    ctx.add_counts(evaluations=len(flat), distinct_nontrivial=len({(json.dumps(s, sort_keys=True), kind, k) for s, kind, k, _, _ in flat}))
    ctx.add_samples([{"spec": s, "relation": kind, "k": k, "trace": tr[:8]} for s, kind, k, tr, _ in flat[:3]])
    # (a) Driver-level clauses on callback events
    rng = np.random.default_rng([ctx.seed, 71])
    dspecs = []
    for _ in range(ctx.pick(200, 2000)):
        s = corpus.rand_spec(rng, problems.CONVEX + problems.NONCONVEX, nmax=8, allow_target=False)
        s["cb"] = ["never", 2, 4][int(rng.integers(3))]
        dspecs.append(s)
    drivercheck.run_traces(ctx, dspecs, PREFIX)
    return ctx.finish("model_checking", RULE)


def replay(ctx, path):
    rec = json.load(open(path))
    if rec.get("kind") == "driver-trace":
        return drivercheck.replay(ctx, path, PREFIX)
    r = crash_points(rec["spec"])
    sel = [t for t in r["traces"] if t[0] == rec["relation"] and t[1] == rec["k"]]
    v = validate(ctx, [t[2] for t in sel], module="Equiv", name="replay")
    print(json.dumps({"clauses": [sorted(x) for x in v]}, indent=1))
    ctx.add_counts(evaluations=2, distinct_nontrivial=2)
    return ctx.finish("model_checking", "replay")
