"""C16: finite-difference modes work at the bounds and agree with exact gradients."""
import json
import multiprocessing as mp

import numpy as np

from harness import corpus, drivercheck, equiv, problems
from harness.checks import feasible_design
from harness.common import NCPU, tlc_design
from harness.tracecheck import validate

PREFIX = ("C16_", "C02_EvalInBox@stencil", "C02_FixedMoved@stencil", "C05_Counters", "C05_SnapCounters")
RULE = ("design: Feasible.tla (bounded stencil site, all roundings) and ScalarFn.tla in finite-difference mode (nfev counts "
        "the value at the point plus every stencil evaluation); code->spec: runs with jac None / '2-point' / '3-point' / "
        "'cs' on convex families and benchmark functions, boxes with active bounds at the start and at the optimum, eps "
        "and finite_diff_rel_step varied: traces validated against DriverTrace (no exception reaches the caller, every "
        "stencil point in the box, counters = all objective calls); relation FD run vs exact-gradient run (same optimal "
        "value to the accuracy of the scheme) validated against Equiv.tla; distinct = event-kind sequences / run pairs")

TOL = {"none": 1e-5, "2-point": 1e-5, "3-point": 1e-7, "cs": 1e-7}


def fd_specs(ctx):
    rng = np.random.default_rng([ctx.seed, 16])
    out = []
    fams = problems.CONVEX + ["badscale", "sphere", "quartic", "rosenbrock", "styblinski_tang", "qpcos"]
    for i in range(ctx.pick(360, 3600)):
        mode = ["none", "2-point", "3-point", "cs"][i % 4]
        fam = fams[int(rng.integers(len(fams)))] if mode != "cs" else problems.CS_OK[int(rng.integers(len(problems.CS_OK)))]
        s = {"family": fam, "n": int(rng.integers(2 if fam == "rosenbrock" else 1, 7)), "pseed": int(rng.integers(1 << 30)),
             "jac": mode, "box_kinds": ["lo", "up", "box", "box", "box", "fix"], "start": ["face", "vertex", "interior"][i % 3],
             "kwargs": {"maxcor": int(rng.choice([1, 3, 10])), "ftol": float(rng.choice([0.0, 1e-9])),
                        "maxiter": int(rng.choice([5, 20, 60])), "maxfun": int(rng.choice([50, 2000])),
                        "maxls": 20}}
        if mode == "none":
            s["kwargs"]["eps"] = float(rng.choice([1e-8, 1e-6, 1e-10]))
        elif rng.random() < 0.5:
            s["kwargs"]["finite_diff_rel_step"] = float(rng.choice([1e-6, 1e-8, 1e-4]))
        out.append(s)
    return out


def agree(spec):
    """FD run vs exact-gradient run on a smooth convex problem with active bounds."""
    import warnings

    warnings.simplefilter("ignore")
    np.seterr(all="ignore")
    import lbfgsb

    p = corpus.make_problem(spec)
    kw = dict(spec["kwargs"])
    mode = spec["jac"]
    sfac = float(spec.get("scaler", 1.0))
    if sfac != 1.0:     # both runs minimise the same scaled objective (a constant gradient scaler)
        kw["gradient_scaler"] = (lambda x, g, lb, ub, v=sfac: v)
    rex = lbfgsb.minimize_lbfgsb(x0=p.x0, fun=p.fun, jac=p.grad, bounds=p.bounds, **kw)
    nact = int(np.sum((rex.x == p.lb) | (rex.x == p.ub)))
    try:
        rfd = lbfgsb.minimize_lbfgsb(x0=p.x0, fun=p.fun, jac=None if mode == "none" else mode, bounds=p.bounds, **kw)
    except Exception as ex:  # noqa: BLE001
        return {"spec": spec, "trace": equiv.merge("C16_Agree", False, [], [], {"no_exception_" + type(ex).__name__: False}), "active": nact}
    scale = 1.0 + abs(rex.fun)
    # accuracy of the differencing scheme itself: the finite-difference gradient carried by the result vs the exact one
    gex = np.asarray(p.grad(rfd.x), float)
    gscale = 1.0 + float(np.max(np.abs(gex)))
    # per-component error budget of the scheme at the returned point: truncation (from the curvature of the objective
    # along the coordinate, estimated with the EXACT gradient) + round-off of the differences (eps*|f|/h), with a safety
    # factor; a wrong step, sign or coefficient gives errors of the order of the gradient itself
    xr = np.asarray(rfd.x, float)
    epsm = np.finfo(float).eps
    if mode == "none":
        hv = np.full(xr.size, float(kw.get("eps", 1e-8)))
    elif mode in ("2-point", "3-point"):
        # the absolute steps SciPy derives from rel_step at this point (rel_step*|x| when given, with its own fallbacks)
        from scipy.optimize._numdiff import _compute_absolute_step
        hv = np.abs(_compute_absolute_step(kw.get("finite_diff_rel_step"), xr, np.float64(rfd.fun / sfac), mode))
        hv = np.where(hv > 0, hv, epsm ** 0.5)
    else:
        hv = np.ones(xr.size)
    d2 = np.zeros(xr.size)      # |d2 f / dx_i^2|, |d3 f / dx_i^3| from central differences of the exact gradient
    d3 = np.zeros(xr.size)
    for i in range(xr.size):
        dl = 1e-3 * (1.0 + abs(xr[i]))
        e = np.zeros(xr.size)
        e[i] = dl
        gp, gm = float(np.asarray(p.grad(xr + e), float)[i]), float(np.asarray(p.grad(xr - e), float)[i])
        d2[i] = abs(gp - gm) / (2 * dl)
        d3[i] = abs(gp - 2.0 * float(gex[i]) + gm) / (dl * dl)
    noise = epsm * (1.0 + abs(float(rfd.fun) / sfac)) / hv
    if mode in ("none", "2-point"):
        allowed = 5.0 * 0.5 * hv * d2 + 50.0 * noise + 1e-9 * gscale
    elif mode == "3-point":
        allowed = 5.0 * hv * hv * d3 / 3.0 + 50.0 * noise + 1e-9 * gscale
    else:
        # (complex step: exact up to the rounding of the evaluation itself, eps*|x| in the argument of the objective)
        allowed = np.full(xr.size, 1e-10 * gscale * (1.0 + float(np.max(np.abs(xr)))))
    # (along a variable with lb == ub nothing can be differenced and nothing is needed: not compared)
    mov = (np.asarray(p.ub) - np.asarray(p.lb)) > 20.0 * hv      # (nor along a variable whose box leaves no room for the stencil)
    err = np.abs(np.asarray(rfd.jac, float) / sfac - gex)
    gerr = float(np.max((err / allowed)[mov])) if mov.any() else 0.0
    gtol_fd = 1.0
    f = {"fun_matches_exact_gradient_solution": bool(abs(rfd.fun - rex.fun) <= TOL[mode] * scale),
         "gradient_accurate_for_the_scheme": bool(gerr <= gtol_fd),
         "x_in_box": bool(np.all(p.lb <= rfd.x) and np.all(rfd.x <= p.ub))}
    return {"spec": spec, "trace": equiv.merge("C16_Agree", False, [], [], f), "active": nact,
            "diff": float(abs(rfd.fun - rex.fun) / scale), "gerr_over_tol": gerr / gtol_fd}


def agree_specs(ctx):
    rng = np.random.default_rng([ctx.seed, 161])
    out = []
    for i in range(ctx.pick(240, 2400)):
        mode = ["none", "2-point", "3-point", "cs"][i % 4]
        out.append({"family": (problems.CONVEX if mode != "cs" else ["qp", "qp4"])[int(rng.integers(3 if mode != "cs" else 2))], "n": int(rng.integers(2, 9)),
                    "pseed": int(rng.integers(1 << 30)), "jac": mode, "cond": float(10 ** rng.uniform(0, 3)),
                    "box_kinds": ["lo", "up", "box", "box", "free", "fix"], "start": ["face", "vertex", "interior"][i % 3],
                    "kwargs": {"maxcor": int(rng.choice([3, 10])), "ftol": 0.0, "gtol": 1e-6, "maxiter": 400, "maxfun": 20000}})
        if i % 5 == 4:
            out[-1]["far_start"] = float(rng.choice([2e3, 2e4]))
            out[-1]["box_kinds"] = ["up", "up", "free"]
            if mode in ("2-point", "3-point"):
                out[-1]["kwargs"]["finite_diff_rel_step"] = float(rng.choice([1e-5, 1e-6]))
        if i % 6 == 5:
            out[-1]["scaler"] = float(rng.choice([0.25, 8.0, 64.0]))
        if i % 7 == 3 and "far_start" not in out[-1]:
            # far from the origin, with boxes that are narrow relative to |x| but wide relative to the differencing step
            out[-1]["shift"] = float(rng.choice([300.0, 1000.0]))
            out[-1]["box_kinds"] = ["narrow", "narrow", "box", "lo", "up"]
        if mode == "none" and i % 8 == 0:
            out[-1]["kwargs"]["eps"] = float(rng.choice([1e-6, 1e-7]))
        elif mode in ("2-point", "3-point") and i % 8 in (1, 2):
            out[-1]["kwargs"]["finite_diff_rel_step"] = float(rng.choice([1e-5, 1e-6]))
        if "shift" in out[-1]:
            # the solution itself lies far from the origin: a coarse RELATIVE step is a coarse absolute step there (h = 1e-5 * 1000)
            # and limits the accuracy of the solution by design; the translated problems use the default steps
            out[-1]["kwargs"].pop("finite_diff_rel_step", None)
    return out


def run(ctx):
    feasible_design.run(ctx)
    tlc_design(ctx, "design:ScalarFn(fd)", "ScalarFn", "ScalarFn_fd.cfg", workers=8)
    drivercheck.run_traces(ctx, fd_specs(ctx), PREFIX, label="fd-runs")
    with mp.get_context("fork").Pool(NCPU) as pool:
        res = pool.map(agree, agree_specs(ctx), chunksize=4)
    viols = validate(ctx, [r["trace"] for r in res], module="Equiv", name="equiv-c16")
    for r, v in zip(res, viols):
        for c in sorted(v):
            ctx.violation(c, {"kind": "fd-vs-exact", "spec": r["spec"], "trace": r["trace"], "rel_diff": r.get("diff"),
                              "summary": f"{r['spec']['jac']} {r['spec']['family']} n={r['spec']['n']} diff={r.get('diff')}"})
    ctx.add_counts(evaluations=len(res), distinct_nontrivial=sum(1 for r in res if r["active"] > 0))
    ctx.cov["fd_vs_exact_max_rel_diff"] = {m: max([r.get("diff", 0.0) for r in res if r["spec"]["jac"] == m] or [0.0]) for m in TOL}
    ctx.cov["fd_vs_exact_with_active_bounds"] = sum(1 for r in res if r["active"] > 0)
    ctx.cov["fd_gradient_error_over_tolerance_max"] = {m: max([r.get("gerr_over_tol", 0.0) for r in res if r["spec"]["jac"] == m] or [0.0]) for m in TOL}
    return ctx.finish("model_checking", RULE)


def replay(ctx, path):
    rec = json.load(open(path))
    if rec.get("kind") == "driver-trace":
        return drivercheck.replay(ctx, path, PREFIX)
    r = agree(rec["spec"])
    v = validate(ctx, [r["trace"]], module="Equiv", name="replay")
    print(json.dumps({"clauses": sorted(v[0]), "diff": r.get("diff")}, indent=1))
    ctx.add_counts(evaluations=2, distinct_nontrivial=2)
    return ctx.finish("model_checking", "replay")
