"""C13: redefining the objective on the fly acts as a restart on the new objective."""
import copy
import json
import multiprocessing as mp
from collections import deque

import numpy as np

from harness import corpus, drivercheck, equiv, problems
from harness.checks import c10
from harness.common import NCPU
from harness.tracecheck import validate

PREFIX = ("C13_",)
RULE = ("design: MCDriver (C13_IdentityNeutral action property, generation counter, filter keeps the newest point and a "
        "subsequence) and Memory.tla filter laws on the integer lattice (every rewrite of the alphabet x every reachable "
        "history); spec->code: lattice histories replayed into make_X_and_G_respect_strong_wolfe (exact); code->spec: "
        "(a) identity update function vs none, merged traces in exact mode; (b) switching the objective at every iteration "
        "k (rescaling, re-weighted regulariser, adversarial gradient rewrites): pairs of later states are bit-exact "
        "differences of the rewritten gradients, curvature of all retained pairs, newest retained; (c) continuation equals "
        "a restart on the new objective from the state holding the rewritten history - validated by TLC against Equiv.tla; "
        "distinct = (run, k, rewrite kind)")

EPS = 2.2e-16


def curv(xa, ga, xb, gb):
    y = gb - ga
    return bool(float((xb - xa).dot(y)) > EPS * float(y.dot(y)))


def pairs_ok(h, maxcor):
    """Every pair of an operator has curvature and there are at most maxcor of them."""
    sk, yk = np.atleast_2d(h.sk), np.atleast_2d(h.yk)
    if sk.size == 0:
        return True
    return bool(sk.shape[0] <= maxcor and all(float(sk[i] @ yk[i]) > EPS * float(yk[i] @ yk[i]) for i in range(sk.shape[0])))


def switching(spec, prefix="C13"):
    import warnings

    warnings.simplefilter("ignore")
    np.seterr(all="ignore")
    import lbfgsb

    p = corpus.make_problem(spec)
    kw = dict(spec["kwargs"])
    kind, kswitch, style = spec["rewrite"], spec["k"], spec.get("style", "new")
    rng = np.random.default_rng([spec["pseed"], 13])
    reg_c = rng.normal(0, 1, p.n)
    w = {"v": 0.0 if kind == "reweight" else 1.0}

    def f_of(x, wv):
        if kind == "reweight":
            return p.fun(x) + wv * 0.5 * float((x - reg_c) @ (x - reg_c))
        return wv * p.fun(x)

    def g_of(x, wv):
        if kind == "reweight":
            return np.asarray(p.grad(x), float) + wv * (x - reg_c)
        return wv * np.asarray(p.grad(x), float)

    log = equiv.EvalLog(lambda x: f_of(x, w["v"]), lambda x: g_of(x, w["v"]))
    calls = {"n": 0}
    seen = {"X": None, "G": None, "x": None, "grad": None, "at": None}
    new_w = float(rng.uniform(0.2, 3.0))
    flips = rng.random(20) < 0.5

    def upd(x, f0, f0_old, grad, X, G):
        calls["n"] += 1
        # call 1 is the initial one (before iterating); call j + 1 happens in iteration j
        if calls["n"] == kswitch + 1:
            if kind in ("rescale", "reweight"):
                w["v"] = new_w
                G2 = deque(g_of(xi, new_w) for xi in X)
                out = (f_of(x, new_w), f_of(X[-1], new_w) if len(X) else f0_old, g_of(x, new_w), G2)
            else:  # adversarial: flip the sign of some stored gradients (no consistent objective)
                G2 = deque((-gi if flips[i % 20] else gi.copy()) for i, gi in enumerate(G))
                out = (f0, f0_old, grad, G2)
            if spec.get("stop_now"):
                # the redefinition reports no decrease (f0_old := f0): the ftol test ends the run in this very iteration
                out = (out[0], out[0], out[2], out[3])
            if style != "new":
                # the same rewrite handed back through the deque the solver passed in: "replace" stores the new
                # arrays in it, "inplace" overwrites the stored arrays; both return the very same deque object
                new = [np.array(v, dtype=float, copy=True) for v in out[3]]
                for i, v in enumerate(new):
                    if style == "inplace" and G[i].flags.writeable:
                        G[i][...] = v
                    else:
                        G[i] = v
                out = (out[0], out[1], out[2], G)
            seen.update(X=[np.array(v, copy=True) for v in X], G=[np.array(v, copy=True) for v in out[3]],
                        x=np.array(x, copy=True), grad=np.array(out[2], copy=True), at=len(log.pts))
            return out
        return f0, f0_old, grad, G

    states = []
    marks = []

    def cb(xk, st):
        states.append(copy.deepcopy(st))
        marks.append(len(log.pts))
        return False

    try:
        res = lbfgsb.minimize_lbfgsb(x0=p.x0, fun=log.fun, jac=log.grad, bounds=p.bounds, update_fun_def=upd,
                                     callback=cb, **kw)
    except Exception as ex:  # noqa: BLE001
        return {"spec": spec, "traces": [("raises", kswitch, equiv.merge(prefix + "_Switch", True, [], [], {"no_exception_" + type(ex).__name__: False}))]}
    out = {"spec": spec, "traces": []}
    if seen["X"] is None:
        return out
    # whatever stops the run after the rewrite (ftol / target / budget in the very iteration of the rewrite included):
    # every state reported since and the result carry at most maxcor pairs, each with curvature
    fr = {"result_pairs_have_curvature": pairs_ok(res.hess_inv, kw["maxcor"]),
          "later_states_pairs_have_curvature": all(pairs_ok(s_.hess_inv, kw["maxcor"]) for s_ in states if s_.nit >= kswitch)}
    if res.nit == kswitch - 1:
        # stopped in the iteration of the rewrite, before the memory update: the result holds the filtered rewritten history
        Xr, Gr = seen["X"], seen["G"]
        kp = [len(Xr) - 1]
        for k in range(len(Xr) - 2, -1, -1):
            if curv(Xr[k], Gr[k], Xr[kp[0]], Gr[kp[0]]):
                kp.insert(0, k)
        esk_ = np.diff(np.array([Xr[i] for i in kp]), axis=0).reshape(-1, p.n) if len(kp) > 1 else np.zeros((0, p.n))
        eyk_ = np.diff(np.array([Gr[i] for i in kp]), axis=0).reshape(-1, p.n) if len(kp) > 1 else np.zeros((0, p.n))
        rs, ry = np.atleast_2d(res.hess_inv.sk).reshape(-1, p.n), np.atleast_2d(res.hess_inv.yk).reshape(-1, p.n)
        fr["result_holds_filtered_rewritten_history"] = bool(rs.shape == esk_.shape and np.array_equal(rs, esk_) and np.array_equal(ry, eyk_))
    out["traces"].append(("result", kswitch, equiv.merge(prefix + "_Switch", True, [], [], fr)))
    # expected history right after the switch: filter (greedy from the newest stored point), then the new point
    X, G = seen["X"], seen["G"]
    keep = [len(X) - 1]
    for k in range(len(X) - 2, -1, -1):
        if curv(X[k], G[k], X[keep[0]], G[keep[0]]):
            keep.insert(0, k)
    Xf, Gf = [X[i] for i in keep], [G[i] for i in keep]
    acc = curv(Xf[-1], Gf[-1], seen["x"], seen["grad"])
    if acc:
        Xf, Gf = Xf + [seen["x"]], Gf + [seen["grad"]]
    m = kw["maxcor"]
    Xf, Gf = Xf[-(m + 1):], Gf[-(m + 1):]
    st = next((s for s in states if s.nit == kswitch), None)
    if st is None:
        return out
    sk, yk = st.hess_inv.sk, st.hess_inv.yk
    esk = np.diff(np.array(Xf), axis=0).reshape(-1, p.n) if len(Xf) > 1 else np.zeros((0, p.n))
    eyk = np.diff(np.array(Gf), axis=0).reshape(-1, p.n) if len(Gf) > 1 else np.zeros((0, p.n))
    f = {"pairs_are_differences_of_rewritten_gradients": bool(sk.shape == esk.shape and np.array_equal(sk, esk) and np.array_equal(yk, eyk)),
         "every_retained_pair_has_curvature": bool(all(float(sk[i] @ yk[i]) > EPS * float(yk[i] @ yk[i]) for i in range(sk.shape[0]))),
         "newest_point_retained": bool((not acc) or (sk.shape[0] > 0 and np.array_equal(sk[-1], st.x - Xf[-2])
                                                      and np.array_equal(st.x, seen["x"]))),
         "state_is_new_objective": bool(st.fun == f_of(st.x, w["v"]) and np.array_equal(st.jac, g_of(st.x, w["v"]))) if kind != "adversarial" else True}
    out["traces"].append(("pairs", kswitch, equiv.merge(prefix + "_Switch", True, [], [], f)))
    # continuation == restart on the new objective from the state holding the rewritten history
    if kind != "adversarial" and res.nit > kswitch and acc and sk.shape[0] > 0:
        rlog = equiv.EvalLog(lambda x: f_of(x, w["v"]), lambda x: g_of(x, w["v"]))
        kw2 = dict(kw)
        rr = lbfgsb.minimize_lbfgsb(x0=np.array(st.x, copy=True), fun=rlog.fun, jac=rlog.grad, bounds=p.bounds,
                                    checkpoint=st, **kw2)
        j = [s.nit for s in states].index(kswitch)
        tail = log.pts[marks[j]:]
        out["traces"].append(("restart", kswitch, equiv.merge(prefix + "_Restart", False, tail, equiv.strip_cached(rlog.pts, st.x), None, limit=4, rtol=1e-6)))
    return out


def restart_rewrite(spec, prefix="C13"):
    """Stop at iteration k, restart from the result with an update function whose FIRST call (the one made before
    iterating, on the sequences restored from the checkpoint) redefines the objective."""
    import warnings

    warnings.simplefilter("ignore")
    np.seterr(all="ignore")
    import lbfgsb

    p = corpus.make_problem(spec)
    kw = dict(spec["kwargs"])
    kind, k = spec["rewrite"], spec["k"]
    rng = np.random.default_rng([spec["pseed"], 131])
    reg_c = rng.normal(0, 1, p.n)
    new_w = float(rng.uniform(1.0, 8.0))
    fr_ = rng.uniform(2.0, 5.0, p.n)
    flips = rng.random(20) < 0.5

    def f_new(x):
        if kind == "nonconvex":
            return p.fun(x) + new_w * float(np.sum(np.cos(fr_ * x)))
        return p.fun(x) + new_w * 0.5 * float((x - reg_c) @ (x - reg_c))

    def g_new(x):
        if kind == "nonconvex":
            return np.asarray(p.grad(x), float) - new_w * fr_ * np.sin(fr_ * x)
        return np.asarray(p.grad(x), float) + new_w * (x - reg_c)

    ck = lbfgsb.minimize_lbfgsb(x0=p.x0, fun=p.fun, jac=p.grad, bounds=p.bounds, **dict(kw, maxiter=k))
    out = {"spec": spec, "traces": []}
    if ck.nit != k or np.atleast_2d(ck.hess_inv.sk).size == 0:
        return out
    sw = {"on": False}
    calls = {"n": 0}

    def upd(x, f0, f0_old, grad, X, G):
        calls["n"] += 1
        if calls["n"] == 1:
            sw["on"] = True
            if kind == "adversarial":
                return f0, f0_old, grad, deque((-gi if flips[i % 20] else gi.copy()) for i, gi in enumerate(G))
            return f_new(x), f0_old, g_new(x), deque(g_new(xi) for xi in X)
        return f0, f0_old, grad, G

    adv = kind == "adversarial"
    states = []
    try:
        res = lbfgsb.minimize_lbfgsb(x0=np.array(ck.x, copy=True), fun=(lambda x: f_new(x) if (sw["on"] and not adv) else p.fun(x)),
                                     jac=(lambda x: g_new(x) if (sw["on"] and not adv) else p.grad(x)), bounds=p.bounds,
                                     checkpoint=ck, update_fun_def=upd, callback=lambda xk, st: states.append(copy.deepcopy(st)) and False,
                                     **dict(kw, maxiter=k + 3))
    except Exception as ex:  # noqa: BLE001
        out["traces"].append(("restart-rewrite", k, equiv.merge(prefix + "_RestartRewrite", True, [], [], {"no_exception_" + type(ex).__name__: False})))
        return out
    f = {"result_pairs_have_curvature": pairs_ok(res.hess_inv, kw["maxcor"]),
         "states_pairs_have_curvature": all(pairs_ok(s_.hess_inv, kw["maxcor"]) for s_ in states)}
    if not adv:
        f["states_are_new_objective"] = all(s_.fun == f_new(s_.x) and np.array_equal(s_.jac, g_new(s_.x)) for s_ in states)
    out["traces"].append(("restart-rewrite", k, equiv.merge(prefix + "_RestartRewrite", True, [], [], f)))
    return out


def identity(spec):
    import warnings

    warnings.simplefilter("ignore")
    np.seterr(all="ignore")
    import lbfgsb

    p = corpus.make_problem(spec)
    kw = dict(spec["kwargs"])
    if spec.get("target_frac") is not None:
        # a target between the start value and the best value of the plain run, with a loose ftol: both stop tests
        # can hold in the same iteration
        r0 = lbfgsb.minimize_lbfgsb(x0=p.x0, fun=p.fun, jac=p.grad, bounds=p.bounds, **dict(kw, ftol=0.0))
        f_start = float(p.fun(np.clip(p.x0, p.lb, p.ub)))
        kw["ftarget"] = f_start - spec["target_frac"] * (f_start - float(r0.fun))
    la, lb_ = equiv.EvalLog(p.fun, p.grad), equiv.EvalLog(p.fun, p.grad)
    ra = lbfgsb.minimize_lbfgsb(x0=p.x0, fun=la.fun, jac=la.grad, bounds=p.bounds,
                                update_fun_def=lambda x, f0, f0o, g, X, G: (f0, f0o, g, G), **kw)
    rb = lbfgsb.minimize_lbfgsb(x0=p.x0, fun=lb_.fun, jac=lb_.grad, bounds=p.bounds, **kw)
    return {"spec": spec, "traces": [("identity", 0, equiv.merge("C13_Identity", True, la.pts, lb_.pts,
                                                                  equiv.result_fields(ra, rb, exact=True)))]}


def specs(ctx):
    rng = np.random.default_rng([ctx.seed, 13])
    sw, idt, rr = [], [], []
    for i in range(ctx.pick(240, 2400)):
        fam = (problems.CONVEX + ["rosenbrock", "qpcos"])[int(rng.integers(5))]
        base = {"family": fam, "n": int(rng.integers(2, 8)), "pseed": int(rng.integers(1 << 30)),
                "cond": float(10 ** rng.uniform(0, 2)),
                "kwargs": {"maxcor": int(rng.choice([1, 2, 3, 5, 10])), "ftol": 0.0, "gtol": 1e-10,
                           "maxiter": int(rng.integers(3, 10)), "maxfun": 400, "maxls": 20}}
        s = dict(base)
        s["rewrite"] = ["rescale", "reweight", "adversarial"][i % 3]
        s["style"] = ["new", "inplace", "replace"][(i // 3) % 3]
        s["k"] = int(rng.integers(1, base["kwargs"]["maxiter"]))
        if i % 2 == 1:
            # loose ftol: the run may stop in the very iteration of the rewrite
            s["kwargs"] = dict(base["kwargs"], ftol=float(rng.choice([1e-1, 1e-2, 1e-3])), maxiter=12)
            s["k"] = int(rng.integers(2, 11))
            s["stop_now"] = bool(i % 4 == 3)
        sw.append(s)
        if i % 2 == 1:
            r_ = dict(base)
            r_["rewrite"] = ["nonconvex", "reweight", "adversarial"][(i // 2) % 3]
            r_["k"] = int(rng.integers(2, 9))
            rr.append(r_)
        if i % 2 == 0:
            b = dict(base)
            b["kwargs"] = dict(base["kwargs"], ftol=float(rng.choice([0.0, 1e-6, 1e-2])), maxiter=int(rng.integers(0, 15)),
                               maxfun=int(rng.choice([3, 10, 400])))
            if i % 4 == 0:
                b["target_frac"] = float(rng.choice([0.1, 0.5, 0.9, 0.99]))
                b["kwargs"]["ftol"] = float(rng.choice([1e-2, 0.3, 0.9]))
                b["kwargs"]["maxiter"] = 15
                b["kwargs"]["maxfun"] = 400
            idt.append(b)
    return sw, idt, rr


def run(ctx):
    drivercheck.design(ctx)
    # objective redefinitions ("rewrite" update functions, restarts included): every result / callback state that carries
    # pairs holds a sequence filtered after the last redefinition (I_C13_ReturnFiltered, I_C13_SnapFiltered)
    drivercheck.design(ctx, cfg="MCDriver_rewrite.cfg")
    for c in c10.mem_cfgs(ctx)[:1]:
        recs = c10.memory_states(ctx, c)
        c10.replay_states(ctx, recs, ("C13_",))
        ctx.add_counts(evaluations=len(recs), distinct_nontrivial=len(recs))
    sw, idt, rr = specs(ctx)
    with mp.get_context("fork").Pool(NCPU) as pool:
        res = pool.map(switching, sw, chunksize=2) + pool.map(identity, idt, chunksize=2) + pool.map(restart_rewrite, rr, chunksize=2)
    flat = [(r["spec"], kind, k, tr) for r in res for (kind, k, tr) in r["traces"]]
    viols = validate(ctx, [t[3] for t in flat], module="Equiv", name="equiv-c13")
    for (spec, kind, k, tr), v in zip(flat, viols):
        for c in sorted(v):
            ctx.violation(c, {"kind": "objective-switch", "relation": kind, "k": k, "spec": spec, "trace": tr[:12],
                              "summary": f"{kind} k={k} rewrite={spec.get('rewrite')} {spec['family']} n={spec['n']} kwargs={spec['kwargs']}"})
    ctx.add_counts(evaluations=len(flat), distinct_nontrivial=len({(json.dumps(s, sort_keys=True), kd, k) for s, kd, k, _ in flat}))
    ctx.add_samples([{"spec": s, "relation": kd, "k": k, "trace": tr[:6]} for s, kd, k, tr in flat[:3]])
    ctx.cov["relations"] = {kd: sum(1 for t in flat if t[1] == kd) for kd in ("pairs", "result", "restart", "restart-rewrite", "identity", "raises")}
    # Driver-level: filter clauses of runs with an identity update function
    rng = np.random.default_rng([ctx.seed, 131])
    dspecs = []
    for _ in range(ctx.pick(100, 1000)):
        s = corpus.rand_spec(rng, problems.CONVEX + problems.NONCONVEX, nmax=8, allow_target=False)
        s["upd"] = "ident"
        dspecs.append(s)
    drivercheck.run_traces(ctx, dspecs, PREFIX)
    return ctx.finish("model_checking", RULE)


def replay(ctx, path):
    rec = json.load(open(path))
    if rec.get("kind") == "driver-trace":
        return drivercheck.replay(ctx, path, PREFIX)
    r = (identity if rec["relation"] == "identity" else restart_rewrite if rec["relation"] == "restart-rewrite" else switching)(rec["spec"])
    v = validate(ctx, [t[2] for t in r["traces"]], module="Equiv", name="replay")
    print(json.dumps({"clauses": [sorted(x) for x in v]}, indent=1))
    ctx.add_counts(evaluations=2, distinct_nontrivial=2)
    return ctx.finish("model_checking", "replay")
