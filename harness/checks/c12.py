"""C12: on unconstrained problems the iterates are those of reference Algorithm 778 (SciPy)."""
import inspect
import json
import multiprocessing as mp

import numpy as np

from harness import corpus, equiv, problems
from harness.checks import c10
from harness.common import NCPU
from harness.observe import Observer
from harness.tracecheck import validate

RULE = ("in-family part of a differential property: (i) the default constants of the live signature are pinned "
        "(ftol_linesearch 1e-3, gtol_linesearch 0.9, xtol_linesearch 0.1, eps_SY 2.2e-16, maxls 20, maxcor 10); (ii) "
        "Memory.tla pins theta = y.y/s.y and the compact/two-loop algebra exactly on the lattice (replayed into the real "
        "update routine); (iii) for unconstrained problems (QP+quartic, QP+softplus, Rosenbrock n <= 8, maxcor 1..8) the "
        "objective-evaluation points of minimize_lbfgsb and of scipy.optimize.minimize(method='L-BFGS-B') over the first "
        "12 iterations are merged position by position and validated by TLC against Equiv.tla in tolerant mode: lock-step "
        "may be lost only after a logged trigger of one of the three documented deviations or once the decrease of f is at "
        "round-off level; (iv) on convex box problems both reach the same optimal value; distinct = problems")

DEFAULTS = {"ftol_linesearch": 1e-3, "gtol_linesearch": 0.9, "xtol_linesearch": 0.1, "eps_SY": 2.2e-16,
            "maxls": 20, "maxcor": 10, "max_steplength": 1e8}


def lockstep(spec):
    import warnings

    warnings.simplefilter("ignore")
    np.seterr(all="ignore")
    from scipy.optimize import minimize

    p = corpus.make_problem(spec)
    m = spec["maxcor"]
    obs = Observer(p.fun, p.grad, p.lb, p.ub)
    res, err = obs.call(x0=p.x0, bounds=None, kwargs={"maxcor": m, "maxiter": 12, "ftol": 0.0, "maxfun": 400}, gtol=1e-12)
    if err is not None:
        return {"spec": spec, "trace": equiv.merge("C12_Lockstep", False, [], [], {"no_exception_" + type(err).__name__: False})}
    # the port's objective evaluations, with the deviation / round-off triggers seen so far
    log_a, excuses, rays = [], {}, {}
    seen = set()
    fprev = None
    trials = []
    it0 = False
    for e in obs.events:
        if e["e"] == "LSBegin":
            trials = []
            it0 = e["it0"]
            x0pt = obs.arr[e["pt"]]
            if it0 and float(np.linalg.norm(obs.gval[e["pt"]])) < 1.0:
                excuses.setdefault(len(log_a), ("Deviation", "unit first step for short gradients"))
        elif e["e"] == "EvalF" and not e["exc"]:
            if e["pt"] in seen:
                continue        # re-evaluation at an accepted earlier trial (deviation: lowest trial accepted)
            seen.add(e["pt"])
            log_a.append(("f", obs.arr[e["pt"]]))
            if e["site"] == "ls":
                trials.append(e["pt"])
                if it0:
                    stp = float(np.linalg.norm(obs.arr[e["pt"]] - x0pt) / max(np.linalg.norm(obs.gval[obs.events[0]["x0"]]) if False else 1e-300, 1e-300)) if False else None
        elif e["e"] == "LSEnd":
            if it0 and e["ret"] == "step" and abs(e.get("_stp", 0.0) - 1.0) < 1e-15 or (it0 and e["ret"] != "step"):
                excuses.setdefault(len(log_a), ("Deviation", "first-iteration step cap"))
            if it0 and e.get("_smax") == 1.0 and len(trials) > 1:
                excuses.setdefault(len(log_a) - len(trials) + 1, ("Deviation", "first-iteration step cap"))
            if e["ret"] == "step" and trials and e["pt"] != trials[-1]:
                excuses.setdefault(len(log_a), ("Deviation", "lowest trial accepted instead of the last"))
                rays[len(log_a)] = (x0pt.copy(), obs.arr[trials[-1]] - x0pt)
            if e["ret"] == "step":
                fnew = obs.fval.get(e["pt"])
                if fprev is not None and fnew is not None and abs(fprev - fnew) <= 1e3 * np.finfo(float).eps * max(1.0, abs(fnew)):
                    excuses.setdefault(len(log_a), ("Roundoff",))
                fprev = fnew
            if e["ret"] != "step":
                excuses.setdefault(len(log_a), ("Roundoff",))
    fprev0 = obs.fval.get(obs.events[0]["x0"])
    lb_ = equiv.EvalLog(p.fun, p.grad)

    def fg(x):
        return lb_.fun(x), np.asarray(p.grad(x), float)

    rs = minimize(fg, p.x0, jac=True, method="L-BFGS-B",
                  options={"maxcor": m, "maxiter": 12, "ftol": 0.0, "gtol": 1e-12, "maxls": 20, "maxfun": 400})
    # "lowest trial accepted" is a deviation only if the reference ended the same line search at the same trial:
    # if its next evaluation still lies on the ray of that search, the port stopped the search early - no excuse
    for pos, (x0r, dr) in rays.items():
        if pos < len(lb_.pts) and excuses.get(pos, ("",))[0] == "Deviation" and "lowest" in excuses[pos][1]:
            v = lb_.pts[pos][1] - x0r
            nd, nv = float(np.linalg.norm(dr)), float(np.linalg.norm(v))
            if nd > 0 and nv > 0 and float(v @ dr) > 0 and np.linalg.norm(v / nv - dr / nd) <= 1e-7:
                del excuses[pos]
    n = min(len(log_a), len(lb_.pts))
    tr = equiv.merge("C12_Lockstep", False, log_a, lb_.pts, None, excuses=excuses, limit=n, rtol=1e-7)
    nsame = 0
    for ev in tr:
        if ev["e"] == "Step":
            if not ev["same"]:
                break
            nsame += 1
    return {"spec": spec, "trace": tr, "n_lockstep": nsame, "n": n, "excuses": {k: v for k, v in excuses.items()}}


def optimum(spec):
    import warnings

    warnings.simplefilter("ignore")
    np.seterr(all="ignore")
    import lbfgsb
    from scipy.optimize import minimize

    p = corpus.make_problem(spec)
    ra = lbfgsb.minimize_lbfgsb(x0=p.x0, fun=p.fun, jac=p.grad, bounds=p.bounds, maxcor=spec["maxcor"], ftol=0.0,
                                gtol=1e-8, maxiter=2000, maxfun=20000)
    rs = minimize(p.fun, p.x0, jac=p.grad, bounds=list(zip(p.lb, p.ub)), method="L-BFGS-B",
                  options={"maxcor": spec["maxcor"], "ftol": 0.0, "gtol": 1e-8, "maxiter": 2000, "maxfun": 20000})
    scale = 1.0 + abs(rs.fun)
    f = {"same_optimal_value": bool(abs(ra.fun - rs.fun) <= 1e-7 * scale)}
    return {"spec": spec, "trace": equiv.merge("C12_Optimum", False, [], [], f), "diff": float(abs(ra.fun - rs.fun) / scale)}


def run(ctx):
    import lbfgsb

    sig = inspect.signature(lbfgsb.minimize_lbfgsb)
    f = {f"default_{k}": bool(sig.parameters[k].default == v) for k, v in DEFAULTS.items()}
    traces = [equiv.merge("C12_Constants", True, [], [], f)]
    meta = [{"kind": "constants", "spec": {k: sig.parameters[k].default for k in DEFAULTS}}]
    for c in c10.mem_cfgs(ctx)[:1]:
        recs = c10.memory_states(ctx, c)
        c10.replay_states(ctx, recs, ("C10_CompactIsBFGS",))
        ctx.add_counts(evaluations=len(recs), distinct_nontrivial=len(recs))
    rng = np.random.default_rng([ctx.seed, 12])
    ls_specs, opt_specs = [], []
    for i in range(ctx.pick(240, 2400)):
        # the non-convex family gets half of the runs: only there can a correction pair fail the curvature test
        fam = ["qp4", "rosenbrock", "qpsoft", "rosenbrock"][i % 4]
        ls_specs.append({"family": fam, "n": int(rng.integers(2, 9)), "pseed": int(rng.integers(1 << 30)), "nobox": True,
                         "cond": float(10 ** rng.uniform(0, 2)), "maxcor": int(rng.integers(1, 9))})
    for i in range(ctx.pick(100, 1000)):
        opt_specs.append({"family": problems.CONVEX[i % 3], "n": int(rng.integers(1, 13)), "pseed": int(rng.integers(1 << 30)),
                          "cond": float(10 ** rng.uniform(0, 3)), "maxcor": int(rng.integers(1, 11))})
    with mp.get_context("fork").Pool(NCPU) as pool:
        r1 = pool.map(lockstep, ls_specs, chunksize=4)
        r2 = pool.map(optimum, opt_specs, chunksize=4)
    for r in r1:
        traces.append(r["trace"])
        meta.append({"kind": "lockstep", "spec": r["spec"], "n_lockstep": r.get("n_lockstep"), "n": r.get("n"), "excuses": {str(k): v for k, v in r.get("excuses", {}).items()}})
    for r in r2:
        traces.append(r["trace"])
        meta.append({"kind": "optimum", "spec": r["spec"], "rel_diff": r["diff"]})
    viols = validate(ctx, traces, module="Equiv", name="equiv-c12")
    for mta, tr, v in zip(meta, traces, viols):
        for c in sorted(v):
            ctx.violation(c, {**mta, "trace": tr[:30], "summary": f"{mta['kind']} {mta['spec']} {mta.get('n_lockstep')}/{mta.get('n')}"})
    ctx.add_counts(evaluations=len(traces), distinct_nontrivial=len(traces))
    full = sum(1 for r in r1 if r.get("n_lockstep") == r.get("n"))
    ctx.cov["lockstep_full_coincidence"] = full
    ctx.cov["lockstep_problems"] = len(r1)
    ctx.cov["lockstep_evaluations_compared"] = sum(r.get("n", 0) for r in r1)
    ctx.cov["optimum_max_rel_diff"] = max(r["diff"] for r in r2)
    ctx.add_samples([{"spec": r["spec"], "n_lockstep": r.get("n_lockstep"), "n": r.get("n")} for r in r1[:3]])
    return ctx.finish("other", RULE, extra={"explanation": "differential comparison with SciPy orchestrated by the Equiv.tla monitor (TLC decides the deviation-aware acceptance rule per merged trace); TLA+ contributes the pinned constants, the exact algebra on the lattice and the acceptance rule, not the reference trajectories"})


def replay(ctx, path):
    rec = json.load(open(path))
    r = lockstep(rec["spec"]) if rec["kind"] == "lockstep" else optimum(rec["spec"])
    v = validate(ctx, [r["trace"]], module="Equiv", name="replay")
    print(json.dumps({"clauses": sorted(v[0]), "trace": r["trace"][:40]}, indent=1, default=str))
    ctx.add_counts(evaluations=2, distinct_nontrivial=2)
    return ctx.finish("other", "replay", extra={"explanation": "replay"})
