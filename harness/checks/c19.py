"""C19: each packaged benchmark gradient is the gradient of its benchmark function."""
import json
from fractions import Fraction

import numpy as np

from harness.common import Machinery, run_tlc
from harness.tracecheck import validate

RULE = ("(i) Bench.tla: the five polynomial pairs transcribed over exact rationals, partial derivatives by stencils exact "
        "for the polynomial degree, evaluated by TLC at every lattice point (n = 1..3, 2.. for chained functions) and "
        "replayed into lbfgsb.<name> / <name>_grad (value, gradient to 1e-9, shape, scalar-ness); (ii) all eight pairs: "
        "per sampled point (n = 1..12, x in [-5,5]^n, away from the origin for Ackley) and coordinate the 6th-order "
        "central difference of the exported function is compared with the exported gradient in 32-bit fixed-point integer "
        "arithmetic by TLC (BenchTrace.tla), tolerance 1e-3*max(1,|grad|); distinct = (function, point, coordinate)")

ALL = ["ackley", "beale", "griewank", "quartic", "rastrigin", "rosenbrock", "sphere", "styblinski_tang"]
POLY = ["sphere", "quartic", "rosenbrock", "beale", "styblinski_tang"]
CHAINED = {"rosenbrock", "beale"}


def lattice_points(ctx):
    out = []
    cfgs = [(1, [0, 1, 2, 3], True), (2, [0, 1, 2], True), (3, [0, 1, 2], ctx.tier == "thorough")]
    if not ctx.quick:
        cfgs.append((4, [0, 1], True))
    for n, vals, neg in cfgs:
        p = ctx.tmp / f"Bench_{n}.cfg"
        fns = [f for f in POLY if not (f in CHAINED and n < 2)]
        with open(p, "w") as fh:
            fh.write("SPECIFICATION Spec\nCONSTANTS\n" f"  N = {n}\n  Vals = {{{', '.join(map(str, vals))}}}\n"
                     f"  Fns = {{{', '.join(chr(34) + f + chr(34) for f in fns)}}}\n  Neg = {'TRUE' if neg else 'FALSE'}\n"
                     "INVARIANT StencilsAgree\n")
        res = run_tlc(ctx, f"design:Bench n={n}", "Bench", str(p), workers="auto", timeout=5400)
        if not res["ok"]:
            raise Machinery("design run Bench failed:\n" + "\n".join(l for l in res["out"].splitlines() if not l.startswith('"{'))[-2000:])
        recs = [json.loads(json.loads(l)) for l in res["out"].splitlines() if l.startswith('"{')]
        if 2 * len(recs) != res["distinct"]:
            raise Machinery(f"Bench: {len(recs)} records for {res['distinct']} states")
        out += recs
    return out


def replay_lattice(ctx, recs):
    import lbfgsb

    for r in recs:
        x = np.array(r["x"], float)
        f = getattr(lbfgsb, r["fn"])
        g = getattr(lbfgsb, r["fn"] + "_grad")
        fv = f(x)
        gv = np.asarray(g(x))
        fe = float(Fraction(*r["f"]))
        ge = np.array([float(Fraction(*q)) for q in r["g"]])
        bad = []
        if not (np.isscalar(fv) or np.ndim(fv) == 0) or np.iscomplexobj(fv):
            bad.append("C19_ScalarValue")
        elif abs(float(fv) - fe) > 1e-9 * (1 + abs(fe)):
            bad.append("C19_FunctionValue")
        if gv.shape != x.shape:
            bad.append("C19_GradientShape")
        elif not np.allclose(gv, ge, rtol=1e-9, atol=1e-9):
            bad.append("C19_GradientIsNotDerivative")
        # array_like inputs: a list and an integer array must give the same value and a gradient of the same shape
        # (integer dtypes are not exercised: beale_grad accumulates into zeros_like(x) and raises for integer
        #  input on the pinned tree as well - an input-type matter outside C19's quantifier, noted in DESIGN 13.5)
        for alt_name, alt in (("list", [float(v) for v in r["x"]]),):
            try:
                fa = f(alt)
                ga = np.asarray(g(alt))
                if not (np.isscalar(fa) or np.ndim(fa) == 0) or abs(float(fa) - fe) > 1e-9 * (1 + abs(fe)):
                    bad.append("C19_FunctionValue@" + alt_name)
                if ga.shape != x.shape or not np.allclose(ga.astype(float), ge, rtol=1e-9, atol=1e-9):
                    bad.append("C19_GradientIsNotDerivative@" + alt_name)
            except Exception as ex:  # noqa: BLE001
                bad.append(f"C19_Raises@{alt_name}:{type(ex).__name__}")
        for c in bad:
            ctx.violation(c, {"kind": "bench-lattice", "fn": r["fn"], "x": r["x"], "expected": {"f": fe, "g": ge.tolist()},
                              "observed": {"f": float(np.asarray(fv).ravel()[0]), "g": gv.tolist()},
                              "summary": f"{r['fn']} at {r['x']}: grad {gv.tolist()} expected {ge.tolist()}"})


def samples(ctx):
    import lbfgsb

    rng = np.random.default_rng([ctx.seed, 19])
    h = 2.0 ** -7
    traces, meta = [], []
    per = ctx.pick(40, 400)
    for fn in ALL:
        f = getattr(lbfgsb, fn)
        g = getattr(lbfgsb, fn + "_grad")
        for n in range(2 if fn in CHAINED else 1, 13):
            ev = []
            pts = []
            for _ in range(max(2, per // n)):
                x = rng.uniform(-5, 5, n)
                if fn == "ackley":
                    while np.linalg.norm(x) < 0.5:
                        x = rng.uniform(-5, 5, n)
                gv = np.asarray(g(x))
                fv = f(x)
                shape_ok = bool(gv.shape == x.shape)
                scalar_ok = bool((np.isscalar(fv) or np.ndim(fv) == 0) and not np.iscomplexobj(fv))
                U = max(float(np.max(np.abs(gv))) if gv.size else 0.0, 1e-6 * (1.0 + abs(float(fv))))   # size of the gradient here
                for i in range(n):
                    D = []
                    for k in (1, 2, 3):
                        xp, xm = x.copy(), x.copy()
                        xp[i] += k * h
                        xm[i] -= k * h
                        D.append(float(f(xp)) - float(f(xm)))
                    G = float(gv.ravel()[i]) if gv.size > i else 0.0
                    big = max(U / 1024.0, abs(G), abs(D[0]) * 64.0, abs(D[1]) * 32.0, abs(D[2]) * 22.0)
                    S = 2.0 ** int(np.floor(np.log2(2 ** 20 / big)))
                    ev.append({"s": 1, "u": max(1, int(round(U * S))), "d1": int(round(D[0] * S)), "d2": int(round(D[1] * S)), "d3": int(round(D[2] * S)),
                               "g": int(round(G * S)), "shapeOk": shape_ok, "scalarOk": scalar_ok})
                    pts.append((x.tolist(), i))
            traces.append(ev)
            meta.append({"fn": fn, "n": n, "pts": pts})
    return traces, meta


def run(ctx):
    recs = lattice_points(ctx)
    replay_lattice(ctx, recs)
    ctx.add_counts(evaluations=len(recs), distinct_nontrivial=len(recs))
    ctx.add_samples(recs[:2])
    traces, meta = samples(ctx)
    viols = validate(ctx, traces, module="BenchTrace", name="bench-stencil")
    nsamp = sum(len(t) for t in traces)
    for m, tr, v in zip(meta, traces, viols):
        if v:
            idx = sorted(int(c.split("@")[1]) for c in v)
            kinds = sorted({c.split("@")[0] for c in v})
            x, i = m["pts"][idx[0] - 1]
            for kd in kinds:
                ctx.violation(kd, {"kind": "bench-stencil", "fn": m["fn"], "n": m["n"], "failing_samples": len(idx),
                                   "of": len(tr), "first": {"x": x, "coordinate": i, "event": tr[idx[0] - 1]},
                                   "summary": f"{m['fn']} n={m['n']}: {len(idx)}/{len(tr)} sampled coordinates fail; first x={x} i={i}"})
    ctx.add_counts(evaluations=nsamp, distinct_nontrivial=nsamp)
    ctx.add_samples([{"fn": meta[0]["fn"], "n": meta[0]["n"], "event": traces[0][0]}])
    return ctx.finish("model_checking", RULE)


def replay(ctx, path):
    raise Machinery("deterministic given the seed: re-run ./check C19")
