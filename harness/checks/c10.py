"""C10: the limited-memory matrix is the BFGS matrix of the stored pairs and stays SPD."""
import json
import multiprocessing as mp
from collections import deque

import numpy as np

from harness import corpus, drivercheck, memcheck, problems
from harness.common import NCPU, Machinery, run_tlc
from harness.tracecheck import validate

PREFIX = ("C10_",)
RULE = ("design: TLC exhausts Memory.tla (all histories of <= MaxHist candidate/reset operations over an alphabet of "
        "integer lattice points incl. zero steps and non-positive curvature, maxcor 1..3) with the invariants bounded, "
        "curvature of every stored pair, compact == BFGS recursion, SPD, secant (exact rationals); spec->code: every "
        "reachable state is replayed into update_lbfgs_matrices / the reset of main.py and compared exactly (deques) and "
        "to 1e-9 (dense matrix); code->spec: random float histories of 40 candidates (convex and non-convex gradients, "
        "n <= 12, maxcor 1..10) and the updates intercepted in real runs validated by TLC on ids with curvature and "
        "dense-reconstruction facts; distinct = distinct histories / event sequences")


def mem_cfgs(ctx):
    if ctx.quick:
        return [dict(N=2, MaxCors=[1, 2, 3], MaxHist=4, AlphaSel="a", MatrixPairs=2),
                dict(N=1, MaxCors=[1, 2], MaxHist=4, AlphaSel="a", MatrixPairs=2)]
    return [dict(N=2, MaxCors=[1, 2, 3], MaxHist=5, AlphaSel="a", MatrixPairs=2),
            dict(N=2, MaxCors=[1, 2, 3], MaxHist=5, AlphaSel="b", MatrixPairs=2),
            dict(N=1, MaxCors=[1, 2, 3], MaxHist=5, AlphaSel="a", MatrixPairs=2)]


INVS = ["C10_Bounded", "C10_Curvature", "MatrixClaims", "C06_RestoreIsLastN", "C13_FilterLaws", "Dump"]


class RecSet:
    """The states emitted by one Memory.tla run, kept on disk (one JSON record per line, NCPU files)."""

    def __init__(self, files, count, maxcors, samples):
        self.files, self.count, self.maxcors, self.samples = files, count, maxcors, samples

    def __len__(self):
        return self.count


def memory_states(ctx, c):
    p = ctx.tmp / f"Memory_{c['N']}_{c['AlphaSel']}_{c['MaxHist']}.cfg"
    with open(p, "w") as fh:
        fh.write("SPECIFICATION Spec\nCONSTANTS\n"
                 f"  N = {c['N']}\n  MaxCors = {{{', '.join(map(str, c['MaxCors']))}}}\n  MaxHist = {c['MaxHist']}\n"
                 f"  AlphaSel = \"{c['AlphaSel']}\"\n  MatrixPairs = {c['MatrixPairs']}\n"
                 + "".join(f"INVARIANT {i}\n" for i in INVS))
    res = run_tlc(ctx, f"design:Memory {c}", "Memory", str(p), workers="auto", timeout=7200, split_json=NCPU)
    if not res["ok"]:
        raise Machinery(f"design run Memory failed - specification bug:\n{res['out'][-2500:]}")
    if res["json_count"] != res["distinct"]:
        raise Machinery(f"Memory: {res['json_count']} records for {res['distinct']} states")
    samples = []
    with open(res["json_chunks"][0]) as fh:
        for k, line in enumerate(fh):
            if k >= 2:
                break
            samples.append(json.loads(json.loads(line)))
    return RecSet(res["json_chunks"], res["json_count"], c["MaxCors"], samples)


def replay_states(ctx, recs, clauses):
    """Every emitted state replayed into the real routines (workers read their own file; only failing records return)."""
    with mp.get_context("fork").Pool(NCPU) as pool:
        outs = pool.map(memcheck._chunk_file, [(f, recs.maxcors) for f in recs.files])
    n_bad = 0
    for o in outs:
        for rec, bad in o:
            for clause, det in bad:
                if clause.startswith(clauses):
                    n_bad += 1
                    ctx.violation(clause, {"kind": "memory-replay", "hist": rec["hist"], "maxcor": rec["maxcor"],
                                           "expected": {"X": rec["X"], "G": rec["G"]}, "observed": det,
                                           "summary": f"history {[(h['op'], h['x'], h['g']) for h in rec['hist']]} maxcor={rec['maxcor']}"})
    return n_bad


def float_history(spec):
    """One random history of candidate updates on floats -> MemoryTrace events."""
    import warnings

    warnings.simplefilter("ignore")
    np.seterr(all="ignore")
    from lbfgsb.bfgsmats import LBFGSB_MATRICES, update_lbfgs_matrices

    rng = np.random.default_rng([spec["pseed"], 10])
    p = problems.gen(rng, spec["family"], spec["n"])
    n, maxcor = spec["n"], spec["maxcor"]
    ids = {}

    def pid(a):
        k = a.tobytes()
        if k not in ids:
            ids[k] = len(ids) + 1
        return ids[k]

    # one history in four lives on a tiny scale (steps and gradient differences ~1e-9: s.y far below the machine
    # epsilon in absolute terms while the relative curvature test is unaffected)
    sc = float(10.0 ** rng.uniform(-10, -7)) if spec.get("tiny") else 1.0
    x = rng.normal(0, 1, n)
    X, G = deque([x.copy()]), deque([np.asarray(p.grad(x), float)])
    mats = LBFGSB_MATRICES(n)
    ev = [{"e": "Begin", "first": pid(X[0]), "maxcor": maxcor}]
    for k in range(spec["len"]):
        r = rng.random()
        if r < 0.1:
            xn = X[-1].copy()                       # zero step
        elif r < 0.2 and len(X) > 1:
            xn = X[-2].copy()                       # going back
        else:
            xn = X[-1] + sc * rng.normal(0, 10 ** rng.uniform(-3, 0.5), n)
        gn = np.asarray(p.grad(xn), float)
        before = [pid(a) for a in X]
        yk = gn - G[-1]
        curv = bool(float((xn - X[-1]).dot(yk)) > 2.2e-16 * float(yk.dot(yk)))
        th0, W0 = mats.theta, mats.W
        try:
            mats = update_lbfgs_matrices(xn.copy(), gn, X, G, maxcor, mats, False)
        except Exception:  # noqa: BLE001 - the routine under test raised: reported as a failed fact
            ev.append({"e": "MemUpd", "cand": pid(xn), "before": before, "ids": before, "curv": curv, "allCurv": False,
                       "matsSame": False, "compact": False, "spd": False, "secant": False, "theta": False})
            break
        after = [pid(a) for a in X]
        allc = all(float((X[j + 1] - X[j]).dot(G[j + 1] - G[j])) > 2.2e-16 * float((G[j + 1] - G[j]).dot(G[j + 1] - G[j]))
                   for j in range(len(X) - 1))
        facts = memcheck.matrix_facts(mats, list(X), list(G)) if after != before else \
            {"compact": True, "spd": True, "secant": True, "theta": True}
        ev.append({"e": "MemUpd", "cand": pid(xn), "before": before, "ids": after, "curv": curv, "allCurv": bool(allc),
                   "matsSame": bool(mats.theta == th0 and mats.W is W0), **facts})
    return {"trace": ev, "spec": spec}


def edge_history(delta):
    """One accepted pair, then a candidate whose curvature ratio s.y / y.y is `delta` EXACTLY (the stored point is
    x = 0 with g = 0, so s and y are the candidate's own coordinates: s = e1, y = delta*e1 + e2 gives s.y = delta,
    y.y = 1 in floats): the curvature test s.y > eps*y.y decides on the knife edge around eps = 2.2e-16."""
    from lbfgsb.bfgsmats import LBFGSB_MATRICES, update_lbfgs_matrices

    n, maxcor = 3, 3
    X, G = deque([np.array([-1.0, -2.0, 0.5])]), deque([np.array([-2.0, -6.0, 2.0])])
    mats = LBFGSB_MATRICES(n)
    ev = [{"e": "Begin", "first": 1, "maxcor": maxcor}]
    mats = update_lbfgs_matrices(np.zeros(n), np.zeros(n), X, G, maxcor, mats, False)
    ok = len(X) == 2
    ev.append({"e": "MemUpd", "cand": 2, "before": [1], "ids": [1, 2] if ok else [1], "curv": True, "allCurv": True,
               "matsSame": not ok, "compact": True, "spd": True, "secant": True, "theta": True})
    s, y = np.array([1.0, 0.0, 0.0]), np.array([delta, 1.0, 0.0])
    curv = bool(float(s.dot(y)) > 2.2e-16 * float(y.dot(y)))
    th0, W0 = mats.theta, mats.W
    before = [1, 2] if ok else [1]
    try:
        mats = update_lbfgs_matrices(s.copy(), y.copy(), X, G, maxcor, mats, False)
        acc = len(X) == len(before) + 1
        ev.append({"e": "MemUpd", "cand": 3, "before": before, "ids": before + [3] if acc else before, "curv": curv,
                   "allCurv": bool(curv or not acc), "matsSame": bool(mats.theta == th0 and mats.W is W0),
                   # (theta = 1/delta ~ 1e15: the dense reconstruction facts are not judged on this pair)
                   "compact": True, "spd": True, "secant": True, "theta": True})
    except Exception:  # noqa: BLE001 - e.g. a factorisation failing on an accepted edge pair
        ev.append({"e": "MemUpd", "cand": 3, "before": before, "ids": before + [3] if curv else before, "curv": curv, "allCurv": True,
                   "matsSame": not curv, "compact": True, "spd": True, "secant": True, "theta": True})
    return {"trace": ev, "spec": {"edge_delta": delta}}


def run(ctx):
    total = 0
    shapes = 0
    for c in mem_cfgs(ctx):
        recs = memory_states(ctx, c)
        replay_states(ctx, recs, ("C10_",))
        total += len(recs)
        shapes += len(recs)
        ctx.add_samples([{k: r[k] for k in ("n", "maxcor", "hist", "X", "G", "B")} for r in recs.samples])
    # random float histories
    rng = np.random.default_rng([ctx.seed, 10])
    specs = [{"family": ["qp", "qp4", "qpcos", "osc", "rosenbrock"][int(rng.integers(5))],
              "n": int(rng.integers(2, 13)), "maxcor": int(rng.integers(1, 11)), "len": 40,
              "pseed": int(rng.integers(1 << 30)), "tiny": bool(k % 4 == 3)} for k in range(ctx.pick(300, 3000))]
    for s in specs:
        if s["tiny"]:
            s["family"] = "qp"      # linear gradient: y = A s keeps its relative accuracy on the tiny scale
    with mp.get_context("fork").Pool(NCPU) as pool:
        res = pool.map(float_history, specs, chunksize=8)
    # knife edge of the curvature test
    res += [edge_history(m * 2.2e-16) for m in (1e-3, 0.1, 0.5, 0.9, 0.99, 1.01, 1.1, 2.0, 10.0, 1e3)]
    viols = validate(ctx, [r["trace"] for r in res], module="MemoryTrace", name="memory-float")
    for r, v in zip(res, viols):
        for cl in sorted(v):
            ctx.violation(cl, {"kind": "memory-float-history", "spec": r["spec"],
                               "summary": f"float history {r['spec']}",
                               "events": [e for e in r["trace"] if e["e"] == "MemUpd" and (e["ids"] == e["before"]) != (not e["curv"])][:3]})
    total += len(res)
    shapes += len({tuple((tuple(e.get("ids", ())), e.get("curv")) for e in r["trace"]) for r in res})
    ctx.add_counts(evaluations=total, distinct_nontrivial=shapes)
    # updates intercepted in real runs
    dspecs = [corpus.rand_spec(rng, problems.CONVEX + problems.NONCONVEX, nmax=8, allow_target=False, allow_cb=False)
              for _ in range(ctx.pick(150, 1500))]
    dspecs += corpus.scripted_specs(rng, exhaustive_len=1, n_random=ctx.pick(100, 1000))
    drivercheck.run_traces(ctx, dspecs, PREFIX)
    return ctx.finish("model_checking", RULE)


def replay(ctx, path):
    rec = json.load(open(path))
    if rec.get("kind") == "driver-trace":
        return drivercheck.replay(ctx, path, PREFIX)
    raise Machinery("memory replays are deterministic: re-run ./check C10")
