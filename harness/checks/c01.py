"""C01: convex box-constrained problems are solved to a first-order (KKT) point."""
import json
import multiprocessing as mp
from concurrent.futures import ThreadPoolExecutor
from fractions import Fraction

import numpy as np

from harness import corpus, drivercheck, equiv, problems
from harness.common import NCPU, Machinery, run_tlc, tlc_design
from harness.observe import projgr
from harness.tracecheck import validate

PREFIX = ("C01_", "C09_Descent")
RULE = ("design: MCDriver under the convex environment contract (every direction is a descent direction, a line search on "
        "it finds a strictly lower point within maxls, curvature tests pass, projected gradient vanishes exactly at the "
        "minimum) with weak fairness: termination (C01_Live), never ABNORMAL, ends at a stationary point given ample "
        "budgets - the kernel contracts are discharged by C08-C11; spec->code: every integer box-QP of the BoxQP.tla "
        "lattice (n <= 3, all boxes, all feasible lattice starts incl. faces/vertices with outward-pushing gradients, "
        "maxcor in {1,2,3,10}) is solved by the real solver and compared with TLC's exact KKT point; code->spec: random "
        "convex families (n <= 12) validated against DriverTrace and the result judged by the Equiv monitor (caller-side "
        "projected gradient at the level of gtol / round-off, whatever the message); distinct = problems")


def boxqp(ctx, n, shards, sub):
    recs = []

    def one(k):
        p = ctx.tmp / f"BoxQP_{n}_{k}.cfg"
        kinds = ", ".join(f'"{x}"' for x in sub["kinds"])
        with open(p, "w") as fh:
            fh.write("SPECIFICATION Spec\nCONSTANTS\n"
                     f"  N = {n}\n  BVals = {{{', '.join(map(str, sub['b']))}}}\n  Neg = TRUE\n  KindNames = {{{kinds}}}\n"
                     f"  XSet = {{{', '.join(map(str, sub['xs']))}}}\n  ShardN = {shards}\n  ShardK = {k}\nINVARIANT UniqueKKT\n")
        return run_tlc(ctx, f"BoxQP n={n} {k}/{shards}", "BoxQP", str(p), workers=1, timeout=10800, record=False, heap="3g")

    with ThreadPoolExecutor(max_workers=min(shards, NCPU)) as ex:
        outs = list(ex.map(one, range(shards)))
    agg = {"name": f"design:BoxQP n={n}", "distinct": 0, "generated": 0, "wall_s": 0.0}
    for res in outs:
        if not res["ok"]:
            raise Machinery("design run BoxQP failed:\n" + "\n".join(l for l in res["out"].splitlines() if not l.startswith('"{'))[-2000:])
        agg["distinct"] += res.get("distinct", 0)
        agg["generated"] += res.get("generated", 0)
        agg["wall_s"] = max(agg["wall_s"], res["wall_s"])
        recs += [json.loads(json.loads(l)) for l in res["out"].splitlines() if l.startswith('"{')]
    ctx.tlc_runs.append(agg)
    if 2 * len(recs) != agg["distinct"]:
        raise Machinery(f"BoxQP: {len(recs)} records for {agg['distinct']} states")
    return recs


def solve_qp(args):
    rec, maxcors = args
    import warnings

    warnings.simplefilter("ignore")
    np.seterr(all="ignore")
    import lbfgsb

    A = np.array(rec["A"], float)
    b = np.array(rec["b"], float)
    lb = np.array([-np.inf if q[1] == 0 else float(Fraction(*q)) for q in rec["lo"]])
    ub = np.array([np.inf if q[1] == 0 else float(Fraction(*q)) for q in rec["hi"]])
    xs = np.array([float(Fraction(*q)) for q in rec["xstar"]])
    x0 = np.array(rec["x0"], float)
    out = []
    for m in maxcors:
        try:
            r = lbfgsb.minimize_lbfgsb(x0=x0, fun=lambda x: 0.5 * float(x @ (A @ x)) + float(b @ x), jac=lambda x: A @ x + b,
                                       bounds=np.array((lb, ub)).T, maxcor=m, ftol=0.0, gtol=1e-8, maxiter=500, maxfun=5000)
        except Exception as ex:  # noqa: BLE001
            out.append((m, "raises:" + repr(ex), None))
            continue
        pg = projgr(r.x, A @ r.x + b, lb, ub)
        ok = bool(np.allclose(r.x, xs, rtol=0, atol=1e-6) and pg <= 1e-6)
        out.append((m, "ok" if ok else "far", {"x": r.x.tolist(), "pg": pg, "message": r.message, "nit": int(r.nit)}))
    return out


def convex_run(spec):
    """One random convex problem: Driver trace + caller-side stationarity fact."""
    r = corpus.execute(spec, want_obs=True)
    p, res = r["problem"], r["results"][0]
    if res is None:
        f = {"no_exception": False}
        far = None
    else:
        g = np.asarray(p.grad(res.x), float)
        pg = projgr(res.x, g, p.lb, p.ub)
        pg0 = projgr(p.x0, np.asarray(p.grad(p.x0), float), p.lb, p.ub)
        thr = max(spec["gtol"][1], 1e-6 * max(1.0, float(np.max(np.abs(g))), pg0))
        f = {"stationary_at_return": bool(pg <= thr), "feasible": bool(np.all(p.lb <= res.x) and np.all(res.x <= p.ub))}
        far = float(pg / thr)
    return {"trace": r["trace"], "equiv": equiv.merge("C01_KKT", False, [], [], f), "spec": spec, "msgs": r["msgs"], "ratio": far}


def run(ctx):
    tlc_design(ctx, "design:MCDriver(convex contract, fairness)", "MCDriver", "MCDriver_live.cfg", timeout=5400)
    # exact lattice QPs
    if ctx.quick:
        lat = [(1, 1, {"kinds": ["free", "lo", "hi", "box", "fix"], "xs": [0, 1, 2, 3], "b": [0, 1, 2, 4]}),
               (2, 16, {"kinds": ["free", "lo", "hi", "box", "fix"], "xs": [0, 1, 3], "b": [0, 1, 3]})]
        maxcors = [1, 3, 10]
    else:
        lat = [(1, 1, {"kinds": ["free", "lo", "hi", "box", "fix"], "xs": [0, 1, 2, 3], "b": [0, 1, 2, 4]}),
               (2, 16, {"kinds": ["free", "lo", "hi", "box", "fix"], "xs": [0, 1, 2, 3], "b": [0, 1, 2, 4]}),
               (3, 48, {"kinds": ["free", "lo", "box", "fix"], "xs": [0, 1, 3], "b": [0, 2]})]
        maxcors = [1, 2, 3, 10]
    n_q = 0
    for n, shards, sub in lat:
        recs = boxqp(ctx, n, shards, sub)
        with mp.get_context("fork").Pool(NCPU) as pool:
            outs = pool.map(solve_qp, [(r, maxcors) for r in recs], chunksize=32)
        for rec, o in zip(recs, outs):
            for m, v, det in o:
                n_q += 1
                if v != "ok":
                    ctx.violation("C01_LatticeQP_" + v.split(":")[0],
                                  {"kind": "lattice-qp", "problem": rec, "maxcor": m, "observed": det if det else v,
                                   "summary": f"A={rec['A']} b={rec['b']} lo={rec['lo']} hi={rec['hi']} x0={rec['x0']} maxcor={m}: {det if det else v}"})
        ctx.add_samples(recs[:1])
    ctx.add_counts(evaluations=n_q, distinct_nontrivial=n_q)
    # random convex families
    rng = np.random.default_rng([ctx.seed, 1])
    specs = []
    for i in range(ctx.pick(400, 4000)):
        specs.append({"family": problems.CONVEX[i % 3], "n": int(rng.integers(1, 13)), "pseed": int(rng.integers(1 << 30)),
                      "cond": float(10 ** rng.uniform(0, 4)), "start": ["interior", "face", "vertex"][int(rng.integers(3))],
                      "kwargs": {"maxcor": int(rng.integers(1, 11)), "ftol": 0.0, "maxiter": 4000, "maxfun": 40000},
                      "gtol": ["float", float(rng.choice([1e-5, 1e-7]))]})
    with mp.get_context("fork").Pool(NCPU) as pool:
        res = pool.map(convex_run, specs, chunksize=4)
    v1 = validate(ctx, [r["equiv"] for r in res], module="Equiv", name="equiv-c01")
    v2 = validate(ctx, [r["trace"] for r in res], name="driver-c01")
    for r, a, b in zip(res, v1, v2):
        cl = set(a) | {c for c in b if c.startswith(PREFIX)}
        for c in sorted(cl):
            ctx.violation(c, {"kind": "convex-run", "spec": r["spec"], "messages": r["msgs"], "pg_over_threshold": r["ratio"],
                              "summary": f"{r['spec']['family']} n={r['spec']['n']} msgs={r['msgs']} pg/thr={r['ratio']}"})
    ctx.add_counts(evaluations=len(res), distinct_nontrivial=len(res))
    ctx.cov["max_pg_over_threshold"] = max((r["ratio"] or 0.0) for r in res)
    ctx.cov["messages"] = {}
    for r in res:
        k = (r["msgs"][0] or "raised")[:40]
        ctx.cov["messages"][k] = ctx.cov["messages"].get(k, 0) + 1
    return ctx.finish("model_checking", RULE)


def replay(ctx, path):
    rec = json.load(open(path))
    if rec["kind"] == "lattice-qp":
        print(json.dumps(solve_qp((rec["problem"], [rec["maxcor"]])), indent=1, default=str))
    else:
        r = convex_run(rec["spec"])
        print(json.dumps({"msgs": r["msgs"], "ratio": r["ratio"]}))
    ctx.add_counts(evaluations=2, distinct_nontrivial=2)
    return ctx.finish("model_checking", "replay")
