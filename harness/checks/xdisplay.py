"""Extension beyond the listed properties: the display / logging plane (Display.tla).
TLC enumerates (iprint, logger, number of completed iterations) and emits the expected sequence of record
kinds; each is replayed on the real solver with a capturing logger.  Not registered in MANIFEST.checks (no
listed property): `./check XDISPLAY` exits 0/2 only and writes evidence/XDISPLAY.json."""
import logging

import numpy as np

from harness.common import Machinery, parse_printt, run_tlc


class Cap(logging.Handler):
    def __init__(self):
        super().__init__()
        self.kinds = []

    def emit(self, record):
        m = record.getMessage()
        if m.startswith("RUNNING THE L-BFGS-B CODE"):
            self.kinds.append("start")
        elif m.startswith("At iterate"):
            self.kinds.append("iter")
        elif m.startswith("Iteration #"):
            self.kinds.append("results")


def run(ctx):
    import lbfgsb

    res = run_tlc(ctx, "design:Display", "Display", "Display.cfg", workers=2)
    if not res["ok"]:
        raise Machinery("design run Display failed:\n" + res["out"][-2000:])
    rows = parse_printt(res["out"], "DISPLAY")
    A = np.diag([1.0, 7.0, 30.0, 2.0])
    c = np.array([1.0, -2.0, 0.5, 3.0])
    bad = 0
    seen = set()
    for _, ip, logger_on, total, log in rows:
        key = (ip, logger_on, total)
        if key in seen:
            continue
        seen.add(key)
        real_ip = -1 if False else (99 if ip == 7 else ip)
        cap = Cap()
        lg = None
        if logger_on:
            lg = logging.getLogger(f"verif-display-{ip}-{total}")
            lg.handlers = [cap]
            lg.propagate = False
            lg.setLevel(logging.INFO)
        r = lbfgsb.minimize_lbfgsb(x0=np.array([4.0, 3.0, -2.0, 5.0]), fun=lambda x: 0.5 * float((x - c) @ (A @ (x - c))),
                                   jac=lambda x: A @ (x - c), maxiter=total, ftol=0.0, gtol=1e-14, maxcor=1,
                                   iprint=real_ip, logger=lg)
        if r.nit != total:
            raise Machinery(f"display replay: run made {r.nit} iterations instead of {total}")
        if cap.kinds != list(log):
            bad += 1
            print(f"DISPLAY MISMATCH iprint={real_ip} logger={logger_on} iterations={total}: real {cap.kinds} expected {list(log)}")
    # iprint < 0: silent
    cap = Cap()
    lg = logging.getLogger("verif-display-neg")
    lg.handlers = [cap]
    lg.propagate = False
    lg.setLevel(logging.INFO)
    lbfgsb.minimize_lbfgsb(x0=np.array([4.0, 3.0, -2.0, 5.0]), fun=lambda x: 0.5 * float((x - c) @ (A @ (x - c))),
                           jac=lambda x: A @ (x - c), maxiter=3, iprint=-1, logger=lg)
    if cap.kinds:
        bad += 1
        print("DISPLAY MISMATCH iprint=-1 is not silent:", cap.kinds)
    ctx.add_counts(evaluations=len(seen) + 1, distinct_nontrivial=len(seen))
    ctx.add_samples([{"iprint": r[1], "logger": r[2], "iterations": r[3], "expected": r[4]} for r in rows[:3]])
    ctx.cov["mismatches"] = bad
    rc = ctx.finish("model_checking", "Display.tla exhausted over iprint x logger x iterations <= 7; every combination replayed on the real solver with a capturing logger and the sequence of record kinds compared")
    if bad:
        print("extension check XDISPLAY: the display plane deviates from Display.tla (not one of the listed properties)")
        return 2
    return rc


def replay(ctx, path):
    return run(ctx)
