"""C17: a gradient scaler is equivalent to minimising the explicitly scaled objective."""
import json
import multiprocessing as mp

import numpy as np

from harness import corpus, drivercheck, equiv, problems
from harness.common import NCPU
from harness.tracecheck import validate

PREFIX = ("C17_",)
RULE = ("design: MCDriver (exactly one Scale action, C17_ScalerOnce); code->spec: for random problems/configurations and "
        "s in [1e-3, 1e3] (and the packaged projected-gradient unit scaler) the run with a scaler and the run on s*f, "
        "s*grad f without scaler are merged evaluation by evaluation and validated by TLC against Equiv.tla in exact mode "
        "(same points bit-for-bit, same x, fun, jac, counters, pairs, message); the scaler run is also validated against "
        "DriverTrace (scaler arguments, call count); target placed on the unscaled value; distinct = distinct run pairs")


def pair(spec):
    import warnings

    warnings.simplefilter("ignore")
    np.seterr(all="ignore")
    import lbfgsb

    spec = dict(spec)
    a = corpus.execute(spec, want_obs=True)
    obs, p, ra = a["obs"], a["problem"], a["results"][0]
    if ra is None:
        return {"skip": True, "spec": spec, "why": a["err"]}
    s = obs.scale
    if not (np.isfinite(s) and 1e-6 <= s <= 1e6):
        # the property quantifies over scalers returning a finite s > 0 (the packaged scaler returns inf when the
        # projected gradient at x0 vanishes)
        return {"skip": True, "spec": spec, "why": f"scaler returned {s}"}
    log_a = []
    for e in obs.events:
        if e["e"] == "EvalF" and not e["exc"]:
            log_a.append(("f", obs.arr[e["pt"]]))
        elif e["e"] == "EvalG" and not e["exc"]:
            log_a.append(("g", obs.arr[e["pt"]]))
    lb = equiv.EvalLog(p.fun, p.grad, fscale=s)
    kw = dict(spec["kwargs"])
    ft = None
    if obs._ftarget_val is not None:
        ft = obs._ftarget_val * s
    rb = lbfgsb.minimize_lbfgsb(x0=p.x0, fun=lb.fun, jac=lb.grad, bounds=p.bounds, ftarget=ft,
                                gtol=spec.get("gtol", ["float", 1e-5])[1], **kw)
    tr = equiv.merge("C17", True, log_a, lb.pts, equiv.result_fields(ra, rb, exact=True))
    return {"skip": False, "spec": spec, "equiv": tr, "driver": a["trace"], "s": s,
            "msgs": [ra.message, rb.message], "nev": [len(log_a), len(lb.pts)]}


def specs(ctx):
    rng = np.random.default_rng([ctx.seed, 17])
    out = []
    for i in range(ctx.pick(300, 3000)):
        s = corpus.rand_spec(rng, problems.CONVEX + problems.NONCONVEX, nmax=8, allow_cb=False, allow_gcall=False,
                             small_budgets=(i % 2 == 0))
        s["kwargs"]["maxiter"] = min(s["kwargs"].get("maxiter", 30), 30)
        s["scaler"] = "unit" if i % 5 == 0 else float(10 ** rng.uniform(-3, 3))
        s["start"] = "interior"
        if "ftarget" in s:
            s["ftarget"] = ["float", s["ftarget"][1]]
        out.append(s)
    return out


def run(ctx):
    drivercheck.design(ctx)
    with mp.get_context("fork").Pool(NCPU) as pool:
        res = pool.map(pair, specs(ctx), chunksize=4)
    res = [r for r in res if not r["skip"]]
    v1 = validate(ctx, [r["equiv"] for r in res], module="Equiv", name="equiv-scaler")
    v2 = validate(ctx, [r["driver"] for r in res], name="driver-scaler")
    for r, a, b in zip(res, v1, v2):
        for c in sorted(a | {x for x in b if x.startswith(PREFIX)}):
            ctx.violation(c, {"kind": "scaler-equivalence", "spec": r["spec"], "s": r["s"], "messages": r["msgs"],
                              "evaluations": r["nev"],
                              "summary": f"{r['spec']['family']} n={r['spec']['n']} s={r['s']:.3g} msgs={r['msgs']} nev={r['nev']}"})
    ctx.add_counts(evaluations=2 * len(res), distinct_nontrivial=len({json.dumps(r["spec"], sort_keys=True) for r in res}))
    ctx.add_samples([{"spec": r["spec"], "s": r["s"], "merged_trace_head": r["equiv"][:8]} for r in res[:2]])
    return ctx.finish("model_checking", RULE)


def replay(ctx, path):
    rec = json.load(open(path))
    r = pair(rec["spec"])
    v = validate(ctx, [r["equiv"]], module="Equiv", name="replay")
    print(json.dumps({"clauses": sorted(v[0]), "s": r["s"], "msgs": r["msgs"]}, indent=1))
    for c in v[0]:
        ctx.violation(c, {"kind": "scaler-equivalence", "spec": rec["spec"]})
    ctx.add_counts(evaluations=2, distinct_nontrivial=2)
    return ctx.finish("model_checking", "replay")
