"""C17: a gradient scaler is equivalent to minimising the explicitly scaled objective."""
import json
import multiprocessing as mp

import numpy as np

from harness import corpus, drivercheck, equiv, problems
from harness.common import NCPU
from harness.tracecheck import validate

PREFIX = ("C17_",)
RULE = ("design: MCDriver (exactly one Scale action, C17_ScalerOnce); code->spec: for random problems/configurations and "
        "s in [1e-3, 1e3] (and the packaged projected-gradient unit scaler) the run with a scaler and the run on s*f, "
        "s*grad f without scaler are merged evaluation by evaluation and validated by TLC against Equiv.tla in exact mode "
        "(same points bit-for-bit, same x, fun, jac, counters, pairs, message); the scaler run is also validated against "
        "DriverTrace (scaler arguments, call count); target placed on the unscaled value; distinct = distinct run pairs")


def pair(spec):
    import warnings

    warnings.simplefilter("ignore")
    np.seterr(all="ignore")
    import lbfgsb

    spec = dict(spec)
    a = corpus.execute(spec, want_obs=True)
    obs, p, ra = a["obs"], a["problem"], a["results"][0]
    if ra is None:
        return {"skip": True, "spec": spec, "why": a["err"]}
    # the factor the scaler returns for this start point (known even if the run never invoked it)
    if spec["scaler"] == "unit":
        x0c = np.clip(p.x0, p.lb, p.ub)
        s = float(lbfgsb.get_gradient_projection_unit_scaling(x0c, np.asarray(p.grad(x0c), float), p.lb, p.ub))
    else:
        s = float(spec["scaler"])
    if not (np.isfinite(s) and 1e-6 <= s <= 1e6):
        # the property quantifies over scalers returning a finite s > 0 (the packaged scaler returns inf when the
        # projected gradient at x0 vanishes)
        return {"skip": True, "spec": spec, "why": f"scaler returned {s}"}
    if spec.get("upd", "none") != "none":
        # with an update function only the scaler's own contract is judged (called once, before the update function, with
        # the start point, the user's unscaled gradient there and the bounds): Driver trace clauses
        tr0 = equiv.merge("C17", True, [], [], {"scaler_invoked_once": obs.calls["scaler"] == 1})
        return {"skip": False, "spec": spec, "equiv": tr0, "driver": a["trace"], "s": s, "relation": "run",
                "msgs": [ra.message, ""], "nev": [0, 0]}
    log_a = []
    fd = spec.get("jac", "callable") != "callable"
    for e in obs.events:
        if e["e"] in (("EvalF", "EvalS") if fd else ("EvalF",)) and not e["exc"]:
            log_a.append(("f", obs.arr[e["pt"]]))       # in finite-difference modes every user call is an objective call
        elif e["e"] == "EvalG" and not e["exc"] and not fd:
            log_a.append(("g", obs.arr[e["pt"]]))
    lb = equiv.EvalLog(p.fun, p.grad, fscale=s)
    kw = dict(spec["kwargs"])
    ft = None
    if obs._ftarget_val is not None:
        ft = obs._ftarget_val * s
    jm = spec.get("jac", "callable")
    rb = lbfgsb.minimize_lbfgsb(x0=p.x0, fun=lb.fun, jac=lb.grad if not fd else (None if jm == "none" else jm), bounds=p.bounds, ftarget=ft,
                                gtol=spec.get("gtol", ["float", 1e-5])[1], **kw)
    fields = equiv.result_fields(ra, rb, exact=True)
    fields["scaler_invoked_once"] = obs.calls["scaler"] == 1
    tr = equiv.merge("C17", True, log_a, lb.pts, fields)
    # the target already met at the start point: the run returns before computing a gradient (relation named for the
    # known-findings file)
    rel = "target-met-at-start" if (ra.nit == 0 and obs.calls["scaler"] == 0 and "TARGET" in ra.message) else "run"
    return {"skip": False, "spec": spec, "equiv": tr, "driver": a["trace"], "s": s, "relation": rel,
            "msgs": [ra.message, rb.message], "nev": [len(log_a), len(lb.pts)]}


def restart_pair(spec):
    """A run with a scaler stopped at iteration k and restarted (same arguments, same scaler) vs the uninterrupted run."""
    import warnings

    warnings.simplefilter("ignore")
    np.seterr(all="ignore")
    import lbfgsb

    p = corpus.make_problem(spec)
    kw = dict(spec["kwargs"])
    sval = float(spec["scaler"])
    sc = lambda x, g, lb, ub: sval   # noqa: E731
    full = equiv.EvalLog(p.fun, p.grad)
    rfull = lbfgsb.minimize_lbfgsb(x0=p.x0, fun=full.fun, jac=full.grad, bounds=p.bounds, gradient_scaler=sc, **kw)
    k = spec["k"]
    lk = equiv.EvalLog(p.fun, p.grad)
    rk = lbfgsb.minimize_lbfgsb(x0=p.x0, fun=lk.fun, jac=lk.grad, bounds=p.bounds, gradient_scaler=sc, **dict(kw, maxiter=k))
    if rfull.nit <= k or rk.nit != k or not rk.message.startswith("STOP: TOTAL NO. of ITERATIONS"):
        return {"skip": True, "spec": spec, "why": "split point not reached"}
    sk = np.atleast_2d(rk.hess_inv.sk)
    anchored = bool(sk.size > 0 and any(np.array_equal(rk.x - pt[1], sk[-1]) for pt in lk.pts))
    if not anchored:
        # a checkpoint whose last memory update was rejected restarts differently with or without a scaler
        # (KF-C06-restart-after-rejected-update): not this relation's subject
        return {"skip": True, "spec": spec, "why": "unanchored checkpoint"}
    lr = equiv.EvalLog(p.fun, p.grad)
    try:
        rr = lbfgsb.minimize_lbfgsb(x0=np.array(rk.x, copy=True), fun=lr.fun, jac=lr.grad, bounds=p.bounds, gradient_scaler=sc,
                                    checkpoint=rk, **kw)
    except Exception as ex:  # noqa: BLE001
        tr = equiv.merge("C17_Restart", False, [], [], {"no_exception_" + type(ex).__name__: False})
        return {"skip": False, "spec": spec, "equiv": tr, "driver": None, "s": sval, "relation": "scaler-restart", "msgs": [repr(ex)], "nev": [0, 0]}
    tail = full.pts[len(lk.pts):]
    fields = {"fun_is_scaled_value_of_x": bool(np.isclose(rr.fun, sval * float(p.fun(rr.x)), rtol=1e-9, atol=1e-300)),
              "not_abnormal_when_uninterrupted_run_is_not": bool(rfull.status == 2 or rr.status != 2)}
    tr = equiv.merge("C17_Restart", False, tail, equiv.strip_cached(lr.pts, rk.x), fields, limit=4, rtol=1e-6)
    return {"skip": False, "spec": spec, "equiv": tr, "driver": None, "s": sval, "relation": "scaler-restart",
            "msgs": [rfull.message, rr.message], "nev": [len(tail), len(lr.pts)]}


def specs(ctx):
    rng = np.random.default_rng([ctx.seed, 17])
    out = []
    for i in range(ctx.pick(300, 3000)):
        s = corpus.rand_spec(rng, problems.CONVEX + problems.NONCONVEX, nmax=8, allow_cb=False, allow_gcall=False,
                             small_budgets=(i % 2 == 0))
        s["kwargs"]["maxiter"] = min(s["kwargs"].get("maxiter", 30), 30)
        s["scaler"] = "unit" if i % 5 == 0 else float(10 ** rng.uniform(-3, 3))
        s["start"] = "interior"
        if "ftarget" in s:
            s["ftarget"] = ["float", s["ftarget"][1]]
        out.append(s)
    # finite-difference gradient modes: with a power of two as factor the differences of s*f are s times the differences
    # of f bit-for-bit, so the equivalence stays exact
    for i in range(ctx.pick(60, 600)):
        s = corpus.rand_spec(rng, problems.CONVEX + ["rosenbrock", "qpcos"], nmax=6, allow_cb=False, allow_gcall=False,
                             allow_target=False, small_budgets=(i % 2 == 0), jacs=("none", "2-point", "3-point"))
        s["kwargs"]["maxiter"] = min(s["kwargs"].get("maxiter", 20), 20)
        s["scaler"] = float(rng.choice([0.25, 4.0, 64.0, 2.0 ** -10]))
        s["start"] = "interior"
        out.append(s)
    # a scaler together with an update function that redefines the objective at its first call
    for i in range(ctx.pick(40, 400)):
        s = corpus.rand_spec(rng, problems.CONVEX + ["rosenbrock"], nmax=6, allow_cb=False, allow_gcall=False, allow_target=False,
                             small_budgets=(i % 2 == 0))
        s["kwargs"]["maxiter"] = min(s["kwargs"].get("maxiter", 10), 10)
        s["scaler"] = float(10 ** rng.uniform(-2, 2))
        s["upd"] = "rewrite"
        s["start"] = "interior"
        out.append(s)
    # the target already met at the start point (the run returns before any gradient is computed)
    for i in range(ctx.pick(20, 200)):
        s = corpus.rand_spec(rng, problems.CONVEX, nmax=6, allow_cb=False, allow_gcall=False, allow_target=False, small_budgets=False)
        s["scaler"] = float(10 ** rng.uniform(-2, 2))
        s["start"] = "interior"
        s["ftarget"] = ["float", 0.5]
        out.append(s)
    return out


def restart_specs(ctx):
    rng = np.random.default_rng([ctx.seed, 171])
    out = []
    for i in range(ctx.pick(60, 600)):
        out.append({"family": (problems.CONVEX + ["rosenbrock", "qpcos"])[i % 5], "n": int(rng.integers(2, 8)),
                    "pseed": int(rng.integers(1 << 30)), "cond": float(10 ** rng.uniform(0, 2)), "start": "interior",
                    "scaler": float(10 ** rng.uniform(-2, 2)) if i % 6 else 1.0, "k": int(rng.integers(1, 6)),
                    "kwargs": {"maxcor": int(rng.choice([1, 3, 10])), "ftol": 0.0, "gtol": 1e-10, "maxiter": 10, "maxfun": 500, "maxls": 20}})
    return out


def run(ctx):
    drivercheck.design(ctx)
    with mp.get_context("fork").Pool(NCPU) as pool:
        res = pool.map(pair, specs(ctx), chunksize=4)
        res2 = pool.map(restart_pair, restart_specs(ctx), chunksize=4)
    res = [r for r in res if not r["skip"]]
    res2 = [r for r in res2 if not r["skip"]]
    v3 = validate(ctx, [r["equiv"] for r in res2], module="Equiv", name="equiv-scaler-restart")
    for r, a in zip(res2, v3):
        for c in sorted(a):
            ctx.violation(c, {"kind": "scaler-equivalence", "relation": r["relation"], "spec": r["spec"], "s": r["s"],
                              "scale_is_one": bool(r["s"] == 1.0), "messages": r["msgs"], "evaluations": r["nev"],
                              "summary": f"restart with a scaler: {r['spec']['family']} n={r['spec']['n']} s={r['s']:.3g} k={r['spec']['k']} msgs={r['msgs']}"})
    ctx.cov["scaler_restart_pairs"] = len(res2)
    v1 = validate(ctx, [r["equiv"] for r in res], module="Equiv", name="equiv-scaler")
    v2 = validate(ctx, [r["driver"] for r in res], name="driver-scaler")
    for r, a, b in zip(res, v1, v2):
        conf = sorted(x for x in b if x.startswith("Conf_"))
        if conf and not (a | {x for x in b if x.startswith(PREFIX)}):
            ctx.conf_failures.append(f"specification cannot follow a real trace ({conf}); spec={json.dumps(r['spec'])}")
        for c in sorted(a | {x for x in b if x.startswith(PREFIX)}):
            ctx.violation(c, {"kind": "scaler-equivalence", "relation": r["relation"], "spec": r["spec"], "s": r["s"], "messages": r["msgs"],
                              "evaluations": r["nev"],
                              "summary": f"{r['spec']['family']} n={r['spec']['n']} s={r['s']:.3g} msgs={r['msgs']} nev={r['nev']}"})
    ctx.add_counts(evaluations=2 * len(res), distinct_nontrivial=len({json.dumps(r["spec"], sort_keys=True) for r in res}))
    ctx.add_samples([{"spec": r["spec"], "s": r["s"], "merged_trace_head": r["equiv"][:8]} for r in res[:2]])
    return ctx.finish("model_checking", RULE)


def replay(ctx, path):
    rec = json.load(open(path))
    r = pair(rec["spec"])
    v = validate(ctx, [r["equiv"]], module="Equiv", name="replay")
    print(json.dumps({"clauses": sorted(v[0]), "s": r["s"], "msgs": r["msgs"]}, indent=1))
    for c in v[0]:
        ctx.violation(c, {"kind": "scaler-equivalence", "spec": rec["spec"]})
    ctx.add_counts(evaluations=2, distinct_nontrivial=2)
    return ctx.finish("model_checking", "replay")
