"""C15: the function wrapper never serves a stale value and counts every evaluation once."""
import itertools
import json
import multiprocessing as mp

import numpy as np

from harness.common import NCPU, tlc_design
from harness.tracecheck import validate

RULE = ("design: TLC exhausts ScalarFn.tla (memo cell, counters, scale changes, caller mutation; callable and "
        "finite-difference modes) with C15_AnswerFresh / C15_NoReeval / C15_CellCoherent; code->spec: EVERY call history "
        "up to the stated length over {fun, grad, fun_and_grad} x 3 points (+ scale changes, + caller overwriting the "
        "array it passed) is run on the real ScalarFunction in every gradient mode and validated by TLC against "
        "ScalarFnTrace (answers compared bit-for-bit with fresh evaluations, user-call log, counters); longer random "
        "histories as well; distinct = distinct histories")

MODES = ["callable", "2-point", "3-point", "cs", "none"]
PTS = [np.array([0.3, -1.2]), np.array([1.5, 0.25]), np.array([0.3 + 1e-13, -1.2])]  # third point: one coordinate of the first nudged
X0 = np.array([0.11, 0.22])
SCALES = [1.0, 2.5]
LB, UB = np.array([-5.0, -5.0]), np.array([5.0, 5.0])


def F(x):
    x = np.asarray(x)
    return (x[0] - 0.5) ** 2 * 3.0 + x[0] * x[1] + (x[1] + 0.25) ** 4 + 1.0


def Gr(x):
    return np.array([6.0 * (x[0] - 0.5) + x[1], x[0] + 4.0 * (x[1] + 0.25) ** 3])


def run_history(args):
    mode, hist = args
    from scipy.optimize._numdiff import approx_derivative

    from lbfgsb.scalar_function import prepare_scalar_function

    calls = []

    def fun(x):
        calls.append(np.array(x, copy=True))
        v = F(x)
        return v

    ng = [0]

    def jac(x):
        ng[0] += 1
        return Gr(x)

    if mode == "callable":
        sf = prepare_scalar_function(fun, X0.copy(), jac=jac, bounds=(LB, UB))
    elif mode == "none":
        sf = prepare_scalar_function(fun, X0.copy(), jac=None, bounds=(LB, UB), epsilon=1e-8)
    else:
        sf = prepare_scalar_function(fun, X0.copy(), jac=mode, bounds=(LB, UB))
    fd = mode != "callable"
    k = {"callable": 0, "2-point": 2, "none": 2, "3-point": 4, "cs": 2}[mode]
    ev = [{"e": "Mode", "fd": fd, "k": k}]
    scale = 1.0
    for op in hist:
        if op[0] == "scale":
            scale = SCALES[op[1]]
            sf.scaling_factor = scale
            ev.append({"e": "Scale", "s": op[1]})
            continue
        kind, pi = op[0], op[1]
        arr = PTS[pi].copy()
        calls.clear()
        ng0 = ng[0]
        ngev0 = sf.ngev
        if kind == "fun":
            ans = sf.fun(arr)
            fa, ga = ans, None
        elif kind == "grad":
            ans = sf.grad(arr)
            fa, ga = None, ans
        else:
            fa, ga = sf.fun_and_grad(arr)
        p = PTS[pi]
        user_f = sum(1 for c in calls if np.array_equal(np.real(c), p) and not np.iscomplexobj(c) or
                     (np.iscomplexobj(c) and np.array_equal(c, p)))
        sten = len(calls) - user_f
        f_ok = True if fa is None else bool(fa == F(p) * scale)
        if ga is None:
            g_ok = True
        elif mode == "callable":
            g_ok = bool(np.array_equal(ga, Gr(p) * scale))
        else:
            opts = {"method": "2-point" if mode == "none" else mode, "bounds": (LB, UB),
                    "rel_step": None, "abs_step": 1e-8 if mode == "none" else None}
            ref = approx_derivative(F, p, f0=F(p), **opts)
            g_ok = bool(np.array_equal(ga, ref * scale))
        user_g = (ng[0] - ng0) if mode == "callable" else (sf.ngev - ngev0)
        if mode != "callable" and sten > 0 and user_g == 0:
            user_g = 0
        ev.append({"e": "Req", "kind": {"fun": "fun", "grad": "grad", "fg": "fg"}[kind], "p": pi + 1,
                   "userF": int(user_f), "userG": int(user_g), "stencil": int(sten),
                   "fOk": f_ok, "gOk": g_ok, "nfev": int(sf.nfev), "ngev": int(sf.ngev)})
        if len(op) > 2 and op[2]:
            arr[:] = PTS[(pi + 1) % 3]      # the caller overwrites the array it passed
            ev.append({"e": "Mutate"})
    return ev


def _chunk(items):
    import warnings

    warnings.simplefilter("ignore")
    return [run_history(a) for a in items]


def histories(length, with_extras):
    reqs = [(k, p, False) for k in ("fun", "grad", "fg") for p in range(3)]
    if with_extras:
        ops = reqs + [("scale", 0), ("scale", 1)] + [("fun", 0, True), ("fg", 1, True), ("grad", 2, True)]
    else:
        ops = reqs
    for L in range(1, length + 1):
        yield from itertools.product(ops, repeat=L)


def run(ctx):
    tlc_design(ctx, "design:ScalarFn(callable)", "ScalarFn", "ScalarFn.cfg", workers=8)
    tlc_design(ctx, "design:ScalarFn(fd)", "ScalarFn", "ScalarFn_fd.cfg", workers=8)
    items = []
    for mode in MODES:
        if ctx.quick:
            hs = list(histories(4, False)) + [h for h in histories(3, True)]
        else:
            hs = list(histories(6 if mode == "callable" else 5, False)) + [h for h in histories(4, True)]
        items += [(mode, h) for h in hs]
    # longer random histories
    rng = np.random.default_rng([ctx.seed, 15])
    allops = list(histories(1, True))
    for _ in range(ctx.pick(500, 5000)):
        L = int(rng.integers(7, 40))
        items.append((MODES[int(rng.integers(len(MODES)))], tuple(allops[int(rng.integers(len(allops)))][0] for _ in range(L))))
    chunks = [items[i::NCPU * 4] for i in range(NCPU * 4)]
    with mp.get_context("fork").Pool(NCPU) as pool:
        outs = pool.map(_chunk, chunks)
    traces = [None] * len(items)
    for kk, o in enumerate(outs):
        for j, t in enumerate(o):
            traces[kk + j * NCPU * 4] = t
    viols = validate(ctx, traces, module="ScalarFnTrace", name="scalarfn", shards=NCPU)
    for (mode, h), t, v in zip(items, traces, viols):
        for c in sorted(v):
            if c.startswith("C15_"):
                ctx.violation(c, {"kind": "scalarfn-history", "mode": mode, "history": [list(o) for o in h], "trace": t,
                                  "summary": f"mode={mode} history={[list(o) for o in h]}"})
    ctx.add_counts(evaluations=len(items), distinct_nontrivial=len(set(items)))
    ctx.add_samples([{"mode": items[i][0], "history": [list(o) for o in items[i][1]], "trace": traces[i]} for i in (len(items) // 3, len(items) // 2)])
    ctx.cov["exhaustive"] = True
    return ctx.finish("model_checking", RULE)


def replay(ctx, path):
    rec = json.load(open(path))
    h = tuple(tuple(o) for o in rec["history"])
    t = run_history((rec["mode"], h))
    v = validate(ctx, [t], module="ScalarFnTrace", name="replay")
    print(json.dumps({"clauses": sorted(v[0]), "trace": t}, indent=1))
    for c in v[0]:
        ctx.violation(c, {"kind": "scalarfn-history", "mode": rec["mode"], "history": rec["history"]})
    ctx.add_counts(evaluations=2, distinct_nontrivial=2)
    return ctx.finish("model_checking", "replay")
