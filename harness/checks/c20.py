"""C20: failures of user callables surface unchanged and leave nothing behind."""
import hashlib
import json
import multiprocessing as mp

import numpy as np

from harness import corpus, drivercheck, problems
from harness.common import NCPU, Machinery
from harness.tracecheck import validate

PREFIX = ("C20_",)
RULE = ("design: MCDriver with a Raise action enabled wherever a user callable is active (objective, gradient, callback, "
        "update function, scaler, ftarget, gtol): afterwards only Propagate is enabled (C20_OnlyPropagate, "
        "C20_NoResultAfterFault); spec->code/fault enumeration: for every call index (capped per kind) of every callable "
        "kind of the explored runs an exception of each of several types (incl. the TypeError/IndexError/ValueError the "
        "code itself catches) is injected; the trace is validated against DriverTrace (same exception object reaches the "
        "caller, no result), then the identical fault-free call is repeated in the same process and compared bit-for-bit "
        "with the result of a fresh process, and a digest of the module-level mutable objects is compared; "
        "distinct = distinct (run, kind, index, type) injection points")

ETYPES = ["InjectedFault", "TypeError", "IndexError", "ValueError", "StopIteration", "OverflowError", "ZeroDivisionError",
          "KeyError", "RuntimeError", "AssertionError", "InjectedBase"]


def digest(res):
    h = hashlib.sha256()
    for r in res:
        if r is None:
            h.update(b"none")
            continue
        for a in (r.x, r.jac, r.hess_inv.sk, r.hess_inv.yk):
            h.update(np.ascontiguousarray(np.asarray(a, float)).tobytes())
        h.update(repr((float(r.fun), r.nfev, r.njev, r.nit, r.message, r.success, r.status)).encode())
    return h.hexdigest()


def shared_digest():
    import logging

    import lbfgsb
    import lbfgsb.linesearch as LS
    import lbfgsb.main as M

    h = hashlib.sha256()
    ist = M.InternalState
    h.update(repr((ist.nit, ist.status, ist.task_str, ist.is_success, ist.warnflag)).encode())
    for d in LS.line_search.__defaults__ or ():
        if isinstance(d, np.ndarray):
            h.update(d.tobytes())
        else:
            h.update(repr(d).encode())
    h.update(repr(logging.getLogger("L-BFGS-B").level).encode())
    h.update(repr(sorted(k for k in vars(lbfgsb) if not k.startswith("_"))).encode())
    return h.hexdigest()


def reference(spec):
    import warnings

    warnings.simplefilter("ignore")
    np.seterr(all="ignore")
    r = corpus.execute(spec, want_obs=True)
    return {"digest": digest(r["results"]), "calls": r["calls"], "err": r["err"]}


def inject(args):
    spec, ref = args
    import warnings

    warnings.simplefilter("ignore")
    np.seterr(all="ignore")
    sd0 = shared_digest()
    r = corpus.execute(spec)
    sd1 = shared_digest()
    again = corpus.execute({k: v for k, v in spec.items() if k != "fault"}, want_obs=True)
    return {"spec": spec, "trace": r["trace"], "err": r["err"], "shared_same": sd0 == sd1 == shared_digest(),
            "followup_same": digest(again["results"]) == ref["digest"]}


def base_specs(ctx):
    rng = np.random.default_rng([ctx.seed, 20])
    out = []
    for i in range(ctx.pick(14, 80)):
        s = corpus.rand_spec(rng, problems.CONVEX + ["qpcos", "rosenbrock", "osc"], nmax=5, allow_cb=False,
                             allow_target=False, allow_gcall=False)
        s["kwargs"].update({"maxiter": int(rng.integers(2, 6)), "maxfun": 40, "maxls": int(rng.choice([2, 5, 20]))})
        s["cb"] = "never"
        s["upd"] = "ident" if i % 2 == 0 else "none"
        s["scaler"] = 2.0 if i % 3 == 0 else None
        s["ftarget"] = ["call", -2.0]
        s["gtol"] = ["call", 1e-6]
        if i % 3 == 2:
            s["jac"] = ["2-point", "cs", "none", "3-point"][(i // 3) % 4]
            s["box_kinds"] = ["lo", "up", "box", "free"]
            if s["jac"] == "cs":
                s["family"] = ["qp", "qp4", "qpcos"][(i // 12) % 3]     # analytic objectives (complex step)
        out.append(s)
    return out


def run(ctx):
    drivercheck.design(ctx, wide=True)
    bases = base_specs(ctx)
    with mp.get_context("spawn").Pool(min(NCPU, len(bases)), maxtasksperchild=1) as pool:   # fresh processes
        refs = pool.map(reference, bases)
    jobs = []
    cap = ctx.pick(5, 12)
    rng = np.random.default_rng([ctx.seed, 201])
    for s, ref in zip(bases, refs):
        if ref["err"] is not None:
            raise Machinery(f"fault-free reference run raised: {ref['err']} for {s}")
        for kind, cnt in ref["calls"].items():
            if cnt == 0 or (kind == "jac" and s.get("jac", "callable") != "callable"):
                continue
            idxs = list(range(1, cnt + 1))
            if len(idxs) > cap:
                idxs = sorted(set([1, 2, cnt] + [int(v) for v in rng.choice(idxs, cap - 3, replace=False)]))
            for ix in idxs:
                for et in (ETYPES if ix <= 2 or ctx.tier == "thorough" else ETYPES[:2]):
                    s2 = dict(s)
                    s2["fault"] = [kind, ix, et]
                    jobs.append((s2, ref))
    with mp.get_context("fork").Pool(NCPU) as pool:
        res = pool.map(inject, jobs, chunksize=4)
    viols = validate(ctx, [r["trace"] for r in res], name="faults")
    for r, v in zip(res, viols):
        cl = sorted(c for c in v if c.startswith(PREFIX))
        if r["err"] is None:
            cl.append("C20_FaultSwallowed")
        if not r["followup_same"]:
            cl.append("C20_FollowUpDiffers")
        if not r["shared_same"]:
            cl.append("C20_SharedStateChanged")
        conf = [c for c in v if c.startswith("Conf_")]
        if conf and not cl:
            raise Machinery(f"specification cannot follow a fault trace {conf}: {json.dumps(r['spec'])}")
        for c in sorted(set(cl)):
            ctx.violation(c, {"kind": "fault-injection", "spec": r["spec"], "fault": r["spec"]["fault"], "err": r["err"],
                              "fault_kind": r["spec"]["fault"][0], "fault_index": r["spec"]["fault"][1], "fault_type": r["spec"]["fault"][2],
                              "jac_mode": r["spec"].get("jac", "callable"),
                              "summary": f"fault {r['spec']['fault']} -> {r['err']} followup_same={r['followup_same']}"})
    ctx.add_counts(evaluations=len(jobs), distinct_nontrivial=len({json.dumps(j[0]["fault"]) + str(j[0]["pseed"]) for j in jobs}))
    ctx.add_samples([{"spec": j[0]} for j in jobs[:3]])
    ctx.cov["by_kind"] = {k: sum(1 for j in jobs if j[0]["fault"][0] == k) for k in ("fun", "jac", "cb", "upd", "scaler", "ftarget", "gtol")}
    return ctx.finish("fault_enumeration", RULE)


def replay(ctx, path):
    rec = json.load(open(path))
    ref = reference({k: v for k, v in rec["spec"].items() if k != "fault"})
    r = inject((rec["spec"], ref))
    v = validate(ctx, [r["trace"]], name="replay")
    print(json.dumps({"clauses": sorted(v[0]), "err": r["err"], "followup_same": r["followup_same"]}, indent=1))
    ctx.add_counts(evaluations=2, distinct_nontrivial=2)
    return ctx.finish("fault_enumeration", "replay")
