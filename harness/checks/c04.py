"""C04: the termination report is truthful and the run budgets are respected."""
import itertools

import numpy as np

from harness import corpus, drivercheck
from harness.problems import CONVEX, NONCONVEX

PREFIX = ("C04_",)
RULE = ("design: TLC exhausts MCDriver over the configuration lattice (maxiter x maxfun x maxls x target kind "
        "x gtol kind x callback stop x restarts incl. maxiter below the checkpoint's nit) with all C04_* invariants; "
        "code->spec: the same lattice is driven through the real solver on random problems (all families) "
        "and every trace validated against DriverTrace (message <-> recomputed facts, counters, call counts); spec->code: "
        "behaviours sampled by TLC (-simulate) from the design model are realised on the real solver with scripted objectives; "
        "distinct = event-kind sequence")


def specs(ctx):
    rng = np.random.default_rng([ctx.seed, 4])
    out = []
    fams = CONVEX + NONCONVEX
    # systematic part of the lattice on small problems
    lat = list(itertools.product([0, 1, 2, 3], [1, 2, 3, 5, 9], [1, 2, 20],
                                 [None, ["float", 0.5], ["call", -0.3], ["float", -2.0]],
                                 [None, "never", 1, 2]))
    rng.shuffle(lat)
    for (mi, mf, ml, ft, cb) in lat[: ctx.pick(240, len(lat))]:
        s = {"family": fams[int(rng.integers(len(fams)))], "n": int(rng.integers(2, 5)),
             "pseed": int(rng.integers(1 << 30)),
             "kwargs": {"maxiter": mi, "maxfun": mf, "maxls": ml, "maxcor": int(rng.choice([1, 2, 5])),
                        "ftol": float(rng.choice([0.0, 1e-5, 0.3]))},
             "gtol": [["float", "call"][int(rng.integers(2))], float(rng.choice([1e-5, 1e-2, 1.0]))]}
        if ft:
            s["ftarget"] = ft
        if cb:
            s["cb"] = cb
        if rng.random() < 0.5:
            s["chain"] = [{"maxiter": int(rng.choice([0, 1, 2, 3, 6])), "maxfun": int(rng.choice([1, 2, 4, 8, 30]))}
                          for _ in range(int(rng.integers(1, 4)))]
        out.append(s)
    for _ in range(ctx.pick(260, 3000)):
        # every gradient mode, every kind of box (degenerate sides included)
        out.append(corpus.rand_spec(rng, fams, nmax=8, allow_chain=True,
                                    jacs=("callable", "callable", "callable", "none", "2-point", "3-point")))
    for s in out:       # a gradient scaler in part of the runs (the target is tested on the unscaled value)
        if "chain" not in s and rng.random() < 0.35:
            s["scaler"] = float(10 ** rng.uniform(-2, 2))
            s["start"] = "interior"
    return out


def _natural_end(spec):
    """nfev / nit / message at which a run ends when no budget binds (probing run, harness side)."""
    import warnings

    warnings.simplefilter("ignore")
    np.seterr(all="ignore")
    import lbfgsb

    p = corpus.make_problem(spec)
    kw = dict(spec["kwargs"], maxiter=400, maxfun=4000)
    fvals = []
    try:
        r = lbfgsb.minimize_lbfgsb(x0=p.x0, fun=p.fun, jac=p.grad, bounds=p.bounds, gtol=spec["gtol"][1],
                                   callback=lambda xk, st: fvals.append(float(st.fun)) and False, **kw)
    except Exception:  # noqa: BLE001
        return None
    return int(r.nfev), int(r.nit), r.message, fvals


def budget_sweeps(ctx):
    """Budgets placed around the point where a run ends by itself - in particular runs that end in the round-off regime
    with a failed line search (ftol = gtol = 0): maxfun from two below to maxls above the natural number of evaluations,
    maxiter around the natural number of iterations. The classification of every such run must stay truthful."""
    import multiprocessing as mp

    from harness.common import NCPU

    rng = np.random.default_rng([ctx.seed, 41])
    base = []
    for i in range(ctx.pick(24, 240)):
        fam = ["rosenbrock", "qp", "qp4", "expwall", "beale", "qpcos"][i % 6]
        base.append({"family": fam, "n": int(rng.integers(2, 5)), "pseed": int(rng.integers(1 << 30)), "jac": "callable",
                     "start": "interior", "cond": float(10 ** rng.uniform(0, 2)), "gtol": ["float", 0.0],
                     "kwargs": {"maxcor": int(rng.choice([2, 5])), "ftol": 0.0, "maxls": int(rng.choice([5, 10, 20]))}})
    with mp.get_context("fork").Pool(NCPU) as pool:
        ends = pool.map(_natural_end, base, chunksize=2)
    out, abnormal = [], 0
    for b, e in zip(base, ends):
        if e is None or e[0] > 600:
            continue
        nfev, nit, msg, fvals = e
        abnormal += "ABNORMAL" in msg
        # targets on the knife edge: exactly the value attained at iteration k, one ulp below it, one ulp above it
        for k in sorted({0, len(fvals) // 2, len(fvals) - 2} & set(range(len(fvals)))):
            v = fvals[k]
            for t in (v, float(np.nextafter(v, -np.inf)), float(np.nextafter(np.nextafter(v, -np.inf), -np.inf)), float(np.nextafter(v, np.inf))):
                out.append(dict(b, ftarget_abs=["float", t], kwargs=dict(b["kwargs"], maxfun=4000, maxiter=1000)))
        ml = b["kwargs"]["maxls"]
        for mf in sorted({max(1, nfev + d) for d in (-2, -1, 0, 1, 2, ml // 2, ml - 1, ml, ml + 1)}):
            out.append(dict(b, kwargs=dict(b["kwargs"], maxfun=int(mf), maxiter=1000)))
        for mi in (max(0, nit - 1), nit, nit + 1):
            out.append(dict(b, kwargs=dict(b["kwargs"], maxfun=4000, maxiter=int(mi))))
    ctx.cov["budget_sweep_bases_ending_abnormally"] = abnormal
    ctx.cov["budget_sweep_runs"] = len(out)
    return out


def apalache_inductive(ctx):
    """C04 budget clause for unbounded maxiter/maxfun/maxls: inductive invariant of Counters.tla (Apalache)."""
    import shutil
    import subprocess

    out = {"tool": "apalache-mc", "obligations": 2, "discharged": 0, "detail": []}
    exe = shutil.which("apalache-mc")
    if exe is None:
        out["detail"].append("apalache-mc not found: skipped")
        ctx.cov["apalache_counters"] = out
        return
    for name, args in (("Init => IndInv", ["--init=Init", "--inv=IndInv", "--length=0"]),
                       ("IndInv /\\ Next => IndInv'", ["--init=IndInit", "--inv=IndInv", "--length=1"])):
        d = ctx.tmp / ("apa-" + str(len(out["detail"])))
        try:
            from harness.common import SPEC
            p = subprocess.run([exe, "check", *args, f"--out-dir={d}", str(SPEC / "Counters.tla")],
                               capture_output=True, text=True, timeout=600, cwd=ctx.tmp)
            ok = "The outcome is: NoError" in p.stdout
            out["detail"].append({"obligation": name, "ok": ok})
            out["discharged"] += int(ok)
            if not ok and "outcome is: Error" in p.stdout:
                from harness.common import Machinery
                raise Machinery("Counters.tla: inductive invariant refuted by Apalache - specification bug:\n" + p.stdout[-1500:])
        except subprocess.TimeoutExpired:
            out["detail"].append({"obligation": name, "ok": False, "note": "timeout: dropped"})
    ctx.cov["apalache_counters"] = out


def run(ctx):
    apalache_inductive(ctx)
    drivercheck.design(ctx, wide=True, restart=True)
    drivercheck.run_traces(ctx, specs(ctx), PREFIX)
    drivercheck.run_traces(ctx, budget_sweeps(ctx), PREFIX, label="budget-sweeps")
    # spec -> code: behaviours sampled by TLC from the design model, realised on the real solver (scripted objective,
    # configuration, callback stop, target threshold, injected fault) and validated as traces
    from harness import simreplay
    beh = simreplay.sample_behaviours(ctx, ctx.pick(400, 4000), seed=ctx.seed + 11, depth=150, cfg="MCDriver_sim.cfg") \
        + simreplay.sample_behaviours(ctx, ctx.pick(150, 1500), seed=ctx.seed + 12, depth=150, cfg="MCDriver_simfault.cfg")
    sspecs = [s for s in (simreplay.to_spec(b) for b in beh) if s]
    ctx.cov["tlc_simulated_behaviours_replayed"] = len(sspecs)
    drivercheck.run_traces(ctx, sspecs, PREFIX, label="tlc-behaviours")
    return ctx.finish("model_checking", RULE)


def replay(ctx, path):
    return drivercheck.replay(ctx, path, PREFIX)
